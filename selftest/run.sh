#!/bin/bash
# Must-fail corpus: every patch under selftest/mutants/<id>/ is applied to a scratch copy of /repo;
# the check of <id> must then report a VIOLATION (exit 1). Scratch copies live under $TMPDIR and are removed.
# usage: selftest/run.sh [property-id ...]
set -u
cd /verif
ids=("$@")
if [ ${#ids[@]} -eq 0 ]; then ids=($(ls selftest/mutants)); fi
fail=0; n=0; skipped=0
for id in "${ids[@]}"; do
  for p in selftest/mutants/$id/*.patch selftest/mutants/$id/*.diff selftest/mutants/$id/*.drift seeded/$id/*/patch.diff; do
    [ -f "$p" ] || continue
    scratch=$(mktemp -d "${TMPDIR:-/tmp}/govc-mut.XXXXXX")
    rsync -a --exclude .git /repo/ "$scratch/"
    if ! (cd "$scratch" && patch -p1 -s --no-backup-if-mismatch < "/verif/$p" >/dev/null 2>&1); then
      echo "SKIP  $id $(echo $p | sed 's|selftest/mutants/[^/]*/||; s|seeded/[^/]*/||') (does not apply)"; skipped=$((skipped+1)); rm -rf "$scratch"; continue
    fi
    n=$((n+1))
    out=$(REPO_DIR="$scratch" VERIF_NOEVIDENCE=1 bin/govc check "$id" 2>&1); rc=$?
    if [[ "$p" == *.drift ]] && [ $rc -eq 2 ]; then
      echo "OK    $id $(echo $p | sed 's|selftest/mutants/[^/]*/||; s|seeded/[^/]*/||'): UNDECIDED as expected (the patch removes identifiers the contract names: contract drift, not reported as a violation)"
    elif [ $rc -eq 1 ] && echo "$out" | grep -q "^VIOLATION property=$id"; then
      echo "OK    $id $(echo $p | sed 's|selftest/mutants/[^/]*/||; s|seeded/[^/]*/||'): $(echo "$out" | grep -c '^VIOLATION') violation line(s); first: $(echo "$out" | grep '^VIOLATION' | head -1 | sed 's/.*obligation=//')"
    else
      echo "MISS  $id $(echo $p | sed 's|selftest/mutants/[^/]*/||; s|seeded/[^/]*/||'): exit $rc"; echo "$out" | tail -5 | sed 's/^/      /'; fail=$((fail+1))
    fi
    rm -rf "$scratch"
  done
done
echo "mutants run=$n missed=$fail skipped=$skipped"
[ $fail -eq 0 ]
