#!/bin/bash
# Applies one behaviour-preserving patch to a scratch copy of /repo and runs the given property check on it: expected exit 0.
# usage: selftest/benign-one.sh <property-id> <patch path relative to /verif>
set -u
cd /verif
id=$1; p=$2
scratch=$(mktemp -d "${TMPDIR:-/tmp}/govc-ben.XXXXXX")
trap 'rm -rf "$scratch"' EXIT
rsync -a --exclude .git /repo/ "$scratch/"
if ! (cd "$scratch" && patch -p1 -s --no-backup-if-mismatch < "/verif/$p" >/dev/null 2>&1); then
  echo "SKIP  $id $p (does not apply)"; exit 0
fi
out=$(REPO_DIR="$scratch" VERIF_NOEVIDENCE=1 bin/govc check "$id" 2>&1); rc=$?
if [ $rc -eq 0 ]; then
  echo "PASS  $id $p"
else
  echo "ALARM $id $p: exit $rc"; echo "$out" | grep -E '^(VIOLATION|UNDECIDED)' | head -4 | cut -c1-260 | sed 's/^/      /'
fi
