#!/bin/bash
# Must-fail corpus, in parallel: every patch under selftest/mutants/<id>/ and seeded/<id>/*/patch.diff is applied to a
# scratch copy of /repo; the check of <id> must then report a VIOLATION (exit 1). usage: selftest/prun.sh [-j N] [id ...]
set -u
cd /verif
jobs=4
if [ "${1:-}" = "-j" ]; then jobs=$2; shift 2; fi
ids=("$@")
if [ ${#ids[@]} -eq 0 ]; then ids=($(ls selftest/mutants seeded | grep '^C' | sort -u)); fi
list=$(mktemp)
for id in "${ids[@]}"; do
  for p in selftest/mutants/$id/*.patch selftest/mutants/$id/*.diff selftest/mutants/$id/*.drift seeded/$id/*/patch.diff; do
    [ -f "$p" ] && echo "$id $p" >> "$list"
  done
done
log=$(mktemp)
xargs -a "$list" -P "$jobs" -L 1 selftest/one.sh | tee "$log" | grep --line-buffered -E '^(MISS|SKIP)' >&2
out=$(cat "$log")
rm -f "$list" "$log"
echo "$out" | sort
n=$(echo "$out" | grep -c '^\(OK\|MISS\)'); miss=$(echo "$out" | grep -c '^MISS'); skip=$(echo "$out" | grep -c '^SKIP')
echo "mutants run=$n missed=$miss skipped=$skip"
[ "$miss" -eq 0 ]
