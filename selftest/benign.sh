#!/bin/bash
# Must-pass corpus: every patch under benign/*/patch.diff is behaviour-preserving; every claimed check must still exit 0 on it.
# usage: selftest/benign.sh [-j N] [patchdir ...]
set -u
cd /verif
jobs=4
if [ "${1:-}" = "-j" ]; then jobs=$2; shift 2; fi
dirs=("$@")
if [ ${#dirs[@]} -eq 0 ]; then dirs=(benign/*/); fi
list=$(mktemp)
for d in "${dirs[@]}"; do
  p="${d%/}/patch.diff"
  [ -f "$p" ] || continue
  for id in $(jq -r '.checks[].property_id' MANIFEST.json); do echo "$id $p" >> "$list"; done
done
out=$(xargs -a "$list" -P "$jobs" -L 1 selftest/benign-one.sh)
rm -f "$list"
echo "$out" | grep -v '^PASS' | sort
echo "runs=$(echo "$out" | grep -c '^\(PASS\|ALARM\)') alarms=$(echo "$out" | grep -c '^ALARM')"
[ "$(echo "$out" | grep -c '^ALARM')" -eq 0 ]
