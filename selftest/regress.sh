#!/bin/bash
# Runs the quick check of every claimed property on /repo's working tree; non-zero when any of them is not clean.
cd /verif
rc=0
for id in $(jq -r '.checks[].property_id' MANIFEST.json); do
  out=$(bin/govc check "$id" 2>&1); r=$?
  echo "$id exit=$r $(echo "$out" | tail -1)"
  if [ $r -ne 0 ]; then rc=1; echo "$out" | grep -E '^(VIOLATION|UNDECIDED|ERROR)' | head -5; fi
done
exit $rc
