#!/bin/bash
# Applies one must-fail patch to a scratch copy of /repo and runs the check of its property on it.
# usage: selftest/one.sh <property-id> <patch path relative to /verif>
set -u
cd /verif
id=$1; p=$2
short=$(echo "$p" | sed 's|selftest/mutants/[^/]*/||; s|seeded/[^/]*/||')
scratch=$(mktemp -d "${TMPDIR:-/tmp}/govc-mut.XXXXXX")
trap 'rm -rf "$scratch"' EXIT
rsync -a --exclude .git /repo/ "$scratch/"
if ! (cd "$scratch" && patch -p1 -s --no-backup-if-mismatch < "/verif/$p" >/dev/null 2>&1); then
  echo "SKIP  $id $short (does not apply)"; exit 0
fi
out=$(REPO_DIR="$scratch" VERIF_NOEVIDENCE=1 bin/govc check "$id" 2>&1); rc=$?
if [ $rc -eq 1 ] && echo "$out" | grep -q "^VIOLATION property=$id"; then
  echo "OK    $id $short: $(echo "$out" | grep -c '^VIOLATION') violation line(s); first: $(echo "$out" | grep '^VIOLATION' | head -1 | sed 's/.* obligation=//')"
else
  echo "MISS  $id $short: exit $rc"; echo "$out" | tail -5 | sed 's/^/      /'
fi
