package ech

// Replay for C14 (obligation dns.Message.Bytes/S:builder-error-free reached from Resolver.Resolve): a URI whose scheme is
// longer than a DNS label must be refused with an error, not a panic.
// Run (from /repo): go test -overlay <overlay.json> -vet=off -run TestVerifReplayC14LongScheme .

import (
	"context"
	"strings"
	"testing"
)

func TestVerifReplayC14LongScheme(t *testing.T) {
	r, err := NewResolver("https://127.0.0.1:1/dns-query")
	if err != nil {
		t.Fatal(err)
	}
	defer func() {
		if p := recover(); p != nil {
			t.Errorf("Resolve panicked: %v", p)
		}
	}()
	for _, n := range []int{64, 300} {
		_, err = r.Resolve(context.Background(), strings.Repeat("a", n)+"://example.com:123")
		if err == nil {
			t.Errorf("scheme of %d bytes: Resolve returned no error", n)
		}
	}
}
