package ech

import (
	"bytes"
	"testing"
)

// Replay for the known finding of C09 (obligation processEncryptedClientHello/F:at[abort-names-context-key]):
// a retried hello that is accepted with keys [target] is aborted with illegal_parameter with keys [other, target]
// when other has the same config id and suite but a different public name: the retry loop opens the payload under
// the stored context while iterating over the first id-matching key and checks that key's public name.
func TestC09RetryOtherKeyFirst(t *testing.T) {
	privKey, config, err := NewConfig(1, []byte("public.example.com"))
	if err != nil {
		t.Fatalf("NewConfig: %v", err)
	}
	otherPriv, otherConfig, err := NewConfig(1, []byte("other.example.net"))
	if err != nil {
		t.Fatalf("NewConfig: %v", err)
	}
	pubKey := privKey.PublicKey()
	target := Key{Config: config, PrivateKey: privKey.Bytes()}
	other := Key{Config: otherConfig, PrivateKey: otherPriv.Bytes()}

	for _, tc := range []struct {
		name string
		keys []Key
	}{
		{"target-only", []Key{target}},
		{"target-first", []Key{target, other}},
		{"other-first", []Key{other, target}},
	} {
		t.Run(tc.name, func(t *testing.T) {
			inner1 := newClientHello("private", "echExtInner", "tls1.3")
			outer1 := newClientHello("public", "tls1.3", config, pubKey, inner1)
			inner2 := newClientHello("private", "echExtInner", "tls1.3")
			outer2 := newClientHello("public", "tls1.3", outer1.hpkeCtx, config, pubKey, inner2)
			c := newFakeConn(append(outer1.bytes(), outer2.bytes()...))
			conn, err := NewConn(t.Context(), c, WithKeys(tc.keys))
			if err != nil {
				t.Fatalf("NewConn: %v", err)
			}
			if !conn.ECHAccepted() {
				t.Fatalf("first hello not accepted")
			}
			if buf, err := readRecord(conn); err != nil || !bytes.Equal(buf, inner1.bytes()) {
				t.Fatalf("first ClientHello: %v", err)
			}
			if _, err := conn.Write(helloRetryReq()); err != nil {
				t.Fatalf("Write(helloRetryReq): %v", err)
			}
			buf, err := readRecord(conn)
			if err != nil {
				t.Fatalf("retried ClientHello: %v (accepted with the target key alone)", err)
			}
			if !bytes.Equal(buf, inner2.bytes()) {
				t.Fatalf("retried ClientHello is not the inner hello")
			}
		})
	}
}
