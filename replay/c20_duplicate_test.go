package publish

// Replay for C20 (obligation publish.CloudflarePublisher.PublishECH/I:loop1-inv-preserved[F:in-sync]):
// a record named twice in one request must be written once; the second entry sees the value already current.
// Run (from /repo/publish): go test -overlay <overlay.json> -vet=off -run TestVerifReplayC20Duplicate .

import (
	"encoding/json"
	"fmt"
	"io"
	"net/http"
	"net/http/httptest"
	"net/url"
	"strings"
	"testing"

	"github.com/hashicorp/go-retryablehttp"
)

func TestVerifReplayC20Duplicate(t *testing.T) {
	value := `alpn="h2"`
	patches := 0
	ts := httptest.NewServer(http.HandlerFunc(func(w http.ResponseWriter, req *http.Request) {
		req.ParseForm()
		p := req.URL.Path
		switch {
		case req.Method == "GET" && p == "/client/v4/zones":
			fmt.Fprintln(w, `{"success":true,"errors":[],"result":[{"id":"zone1","name":"example.org"}],"result_info":{"page":1,"per_page":20,"total_pages":1,"count":1}}`)
		case req.Method == "GET" && strings.HasSuffix(p, "/dns_records"):
			b, _ := json.Marshal(map[string]any{"success": true, "errors": []any{},
				"result":      []any{map[string]any{"id": "record1", "name": "example.org", "data": map[string]any{"priority": 1, "target": ".", "value": value}}},
				"result_info": map[string]any{"page": 1, "per_page": 20, "total_pages": 1, "count": 1}})
			w.Write(b)
		case req.Method == "PATCH":
			patches++
			b, _ := io.ReadAll(req.Body)
			var body struct {
				Data struct {
					Value string `json:"value"`
				} `json:"data"`
			}
			json.Unmarshal(b, &body)
			value = body.Data.Value
			fmt.Fprintln(w, `{"success": true}`)
		default:
			http.NotFound(w, req)
		}
	}))
	defer ts.Close()
	u, _ := url.Parse(ts.URL)
	u.Path = "/client/v4/zones"
	c := retryablehttp.NewClient()
	c.Logger = nil
	cf := &CloudflarePublisher{baseURL: *u, client: c, zoneIDs: make(map[string]string)}
	got := cf.PublishECH(t.Context(), []Target{{Zone: "example.org", Name: "example.org"}, {Zone: "example.org", Name: "example.org"}}, []byte{1, 2, 3})
	if len(got) != 2 || got[0].Code != StatusUpdated {
		t.Fatalf("results = %#v", got)
	}
	if patches != 1 || got[1].Code != StatusNoChange {
		t.Errorf("record requested twice: %d PATCH requests, second result %v; want 1 PATCH and no change (stored value %q)", patches, got[1], value)
	}
}
