package ech

import (
	"errors"
	"testing"
)

// Replay harness for C04 (padding clause): an EncodedClientHelloInner whose padding is not all zero
// must be rejected with illegal_parameter. The decrypted payload is re-framed exactly as
// processEncryptedClientHello does (msg_type 1, uint24 length, payload).
func TestReplayC04Padding(t *testing.T) {
	inner := newClientHello("private", "tls1.3", "echExtInner")
	body := inner.bytes()[9:]
	for _, pad := range [][]byte{{0, 1, 0}, {1}, {0, 0, 0, 0, 0, 0, 0, 255}} {
		payload := append(append([]byte{}, body...), pad...)
		msg := append([]byte{1, byte(len(payload) >> 16), byte(len(payload) >> 8), byte(len(payload))}, payload...)
		if _, err := parseClientHello(msg); !errors.Is(err, ErrIllegalParameter) {
			t.Errorf("padding %v: parseClientHello = %v, want illegal parameter", pad, err)
		}
	}
	// all-zero padding is accepted
	payload := append(append([]byte{}, body...), 0, 0, 0, 0)
	msg := append([]byte{1, byte(len(payload) >> 16), byte(len(payload) >> 8), byte(len(payload))}, payload...)
	if _, err := parseClientHello(msg); err != nil {
		t.Errorf("zero padding rejected: %v", err)
	}
}
