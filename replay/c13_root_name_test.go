package dns

// Replay for C13 (obligation dns.Message.Bytes/I:loop1-inv-preserved[L:questions]): the root name is the single octet 0
// (RFC 1035 3.1); a question for the root must be 5 octets after the 12-octet header and must decode to the same question.
// Run (from /repo): go test -overlay <overlay.json> -vet=off -run TestVerifReplayC13RootName ./dns

import "testing"

func TestVerifReplayC13RootName(t *testing.T) {
	for _, name := range []string{"", "."} {
		m := Message{RD: 1, Question: []Question{{Name: name, Type: 2, Class: 1}}}
		b := m.Bytes()
		if len(b) != 12+1+4 {
			t.Errorf("name %q: encoded length %d, want 17: % x", name, len(b), b[12:])
			continue
		}
		d, err := DecodeMessage(b)
		if err != nil {
			t.Errorf("name %q: decode: %v", name, err)
			continue
		}
		if len(d.Question) != 1 || d.Question[0].Type != 2 || d.Question[0].Class != 1 || d.Question[0].Name != "" {
			t.Errorf("name %q: decoded question %+v", name, d.Question)
		}
	}
}
