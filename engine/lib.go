package main

import (
	"fmt"
	"go/ast"
	"go/token"
	"go/types"
	"sort"
	"strings"
)

func sortStrings(s []string) { sort.Strings(s) }

const cbString = "golang.org/x/crypto/cryptobyte.String"
const cbBuilder = "golang.org/x/crypto/cryptobyte.Builder"

// stripAddr removes & and pointer conversions from an out-parameter expression.
func (ex *Exec) stripAddr(e ast.Expr) ast.Expr {
	e = ast.Unparen(e)
	if c, ok := e.(*ast.CallExpr); ok {
		if tv, ok := ex.info().Types[c.Fun]; ok && tv.IsType() && len(c.Args) == 1 {
			return ex.stripAddr(c.Args[0])
		}
	}
	if u, ok := e.(*ast.UnaryExpr); ok && u.Op == token.AND {
		return ast.Unparen(u.X)
	}
	return nil
}

// outLvalue resolves an out-parameter argument (&x, or a pointer value) to an lvalue.
func (ex *Exec) outLvalue(e ast.Expr) *lval {
	if x := ex.stripAddr(e); x != nil {
		return ex.lvalue(x)
	}
	p := ex.eval(e)
	ex.assert("S", "nil["+exprString(e)+"]", Ne(p.T, I(0)))
	pt, _ := p.Typ.Underlying().(*types.Pointer)
	if pt == nil {
		ex.errorf("out parameter %s is not a pointer", exprString(e))
		return &lval{kind: lvBlank}
	}
	return &lval{kind: lvDeref, ref: p.T, typ: pt.Elem(), str: "*" + exprString(e)}
}

// recvLvalue returns the lvalue of a cryptobyte.String receiver.
func (ex *Exec) recvLvalue(x ast.Expr) *lval {
	t := ex.typeOf(x)
	if isPointer(t) {
		p := ex.eval(x)
		ex.assert("S", "nil["+exprString(x)+"]", Ne(p.T, I(0)))
		return &lval{kind: lvDeref, ref: p.T, typ: t.Underlying().(*types.Pointer).Elem(), str: "*" + exprString(x)}
	}
	return ex.lvalue(x)
}

func beRead(s *T, n int) *T {
	r := I(0)
	for i := 0; i < n; i++ {
		b := App("memB", SInt, SBase(s), Add(SOff(s), I(int64(i))))
		r = Add(Mul(r, I(256)), b)
		if i == 0 {
			r = b
		}
	}
	return r
}

func advance(s, n *T) *T {
	return MkSlice(SBase(s), Add(SOff(s), n), Sub(SLen(s), n), Sub(SCap(s), n))
}

func cbWindow(s, from, n *T) *T {
	return MkSlice(SBase(s), Add(SOff(s), from), n, Sub(SCap(s), from))
}

// libModel handles library calls that need access to argument expressions. ok=false: not handled here.
func (ex *Exec) libModel(full string, e *ast.CallExpr, callee *types.Func) ([]Val, bool) {
	boolT := types.Typ[types.Bool]
	if strings.HasPrefix(full, "(*"+cbString+").") || strings.HasPrefix(full, "("+cbString+").") {
		ex.libUsed["cryptobyte.String"] = true
		m := callee.Name()
		sel := ast.Unparen(e.Fun).(*ast.SelectorExpr)
		if m == "Empty" {
			v := ex.eval(sel.X)
			if isPointer(v.Typ) {
				ex.assert("S", "nil["+exprString(sel.X)+"]", Ne(v.T, I(0)))
				v = ex.derefLoad(v, nil)
			}
			return []Val{{Eq(SLen(v.T), I(0)), boolT}}, true
		}
		rlv := ex.recvLvalue(sel.X)
		s := ex.load(rlv).T
		uintN := map[string]int{"ReadUint8": 1, "ReadUint16": 2, "ReadUint24": 3, "ReadUint32": 4}
		lpN := map[string]int{"ReadUint8LengthPrefixed": 1, "ReadUint16LengthPrefixed": 2, "ReadUint24LengthPrefixed": 3}
		if n, ok := uintN[m]; ok {
			out := ex.outLvalue(e.Args[0])
			okc := Le(I(int64(n)), SLen(s))
			oldOut := ex.load(out)
			ex.store(out, Val{Ite(okc, beRead(s, n), oldOut.T), out.typ})
			ex.store(rlv, Val{Ite(okc, advance(s, I(int64(n))), s), rlv.typ})
			return []Val{{okc, boolT}}, true
		}
		if n, ok := lpN[m]; ok {
			out := ex.outLvalue(e.Args[0])
			ok1 := Le(I(int64(n)), SLen(s))
			L := beRead(s, n)
			okc := And(ok1, Le(Add(I(int64(n)), L), SLen(s)))
			oldOut := ex.load(out)
			ex.store(out, Val{Ite(okc, cbWindow(s, I(int64(n)), L), oldOut.T), out.typ})
			ex.store(rlv, Val{Ite(okc, advance(s, Add(I(int64(n)), L)), Ite(ok1, advance(s, I(int64(n))), s)), rlv.typ})
			return []Val{{okc, boolT}}, true
		}
		switch m {
		case "ReadBytes":
			out := ex.outLvalue(e.Args[0])
			n := ex.eval(e.Args[1]).T
			okc := And(Le(I(0), n), Le(n, SLen(s)))
			oldOut := ex.load(out)
			ex.store(out, Val{Ite(okc, cbWindow(s, I(0), n), oldOut.T), out.typ})
			ex.store(rlv, Val{Ite(okc, advance(s, n), s), rlv.typ})
			return []Val{{okc, boolT}}, true
		case "Skip":
			n := ex.eval(e.Args[0]).T
			okc := And(Le(I(0), n), Le(n, SLen(s)))
			ex.store(rlv, Val{Ite(okc, advance(s, n), s), rlv.typ})
			return []Val{{okc, boolT}}, true
		}
		ex.errorf("unmodelled cryptobyte.String method %s", m)
		return ex.havocResults(resultTypes(ex.typeOf(e)), m), true
	}
	if strings.HasPrefix(full, "(*"+cbBuilder+").") {
		m := callee.Name()
		lp := map[string]int{"AddUint8LengthPrefixed": 1, "AddUint16LengthPrefixed": 2, "AddUint24LengthPrefixed": 3, "AddUint32LengthPrefixed": 4}
		if n, ok := lp[m]; ok {
			ex.libUsed["cryptobyte.Builder"] = true
			sel := ast.Unparen(e.Fun).(*ast.SelectorExpr)
			b := ex.eval(sel.X)
			id := ex.builderID(b.T)
			if id == "" {
				ex.errorf("length-prefixed add on unknown builder %s", exprString(sel.X))
				return nil, true
			}
			p := ex.get(ex.st, "$bld."+id+".len")
			ex.st.env["$bld."+id+".len"] = Add(p, I(int64(n)))
			// run the continuation inline with its parameter bound to the same builder
			fv := ex.eval(e.Args[0])
			c, isClo := ex.closures[fv.T.String()]
			if !isClo {
				ex.errorf("builder continuation is not a function literal")
				return nil, true
			}
			sig := fv.Typ.Underlying().(*types.Signature)
			ex.inlineBody("cont@"+ex.posString(c.lit.Pos()), sig, c.lit.Type, c.lit.Body, nil, nil, []Val{b}, ex.pkg, ex.curContract(), false)
			end := ex.get(ex.st, "$bld."+id+".len")
			L := Sub(Sub(end, p), I(int64(n)))
			base := Const("bld"+id+".base", SInt)
			fits := Lt(L, pow2(uint(8*n)))
			var fs []*T
			sum := I(0)
			for i := 0; i < n; i++ {
				bt := App("memB", SInt, base, Add(p, I(int64(i))))
				sum = Add(Mul(sum, I(256)), bt)
				if i == 0 {
					sum = bt
				}
			}
			fs = append(fs, Eq(sum, L))
			ex.assume(Imp(fits, And(fs...)))
			ex.st.env["$bld."+id+".err"] = Or(ex.get(ex.st, "$bld."+id+".err"), Not(fits))
			return nil, true
		}
	}
	switch full {
	case "fmt.Errorf":
		ex.libUsed["fmt.Errorf"] = true
		format, ok := ex.constString(e.Args[0])
		var vals []Val
		for _, a := range e.Args[1:] {
			vals = append(vals, ex.eval(a))
		}
		var wrapped *T
		if ok {
			vs := fmtVerbs(format)
			for i, v := range vs {
				if v == 'w' && i < len(vals) {
					if wrapped != nil {
						ex.errorf("Errorf with several %%w unsupported")
					}
					wrapped = ex.coerce(vals[i], types.Universe.Lookup("error").Type()).T
				}
			}
		} else {
			ex.errorf("Errorf with non-constant format")
		}
		return []Val{{ex.newError(wrapped), types.Universe.Lookup("error").Type()}}, true
	case "fmt.Sprintf":
		// the result is a function of the format literal and the argument values (content identities for strings)
		format, ok := ex.constString(e.Args[0])
		var vals []Val
		for _, a := range e.Args[1:] {
			vals = append(vals, ex.eval(a))
		}
		res := ex.fresh("sprintf", SSlice)
		ex.assume(App("wfS", SBool, res))
		if ok && !e.Ellipsis.IsValid() {
			ex.libUsed["fmt.Sprintf (result identified by format literal and argument values)"] = true
			ex.assume(Eq(App("cid", SInt, res), ex.fmtIdTerm(format, vals)))
		}
		return []Val{{res, types.Typ[types.String]}}, true
	case "errors.As":
		ex.libUsed["errors.As"] = true
		errv := ex.eval(e.Args[0])
		out := ex.outLvalue(e.Args[1])
		okc := ex.fresh("as", SBool)
		nv := ex.fresh("astarget", sortOf(out.typ))
		ex.assume(And(Imp(okc, And(Ne(errv.T, I(0)), Lt(I(0), nv))), ex.typeFact(out.typ, nv)))
		old := ex.load(out)
		ex.store(out, Val{Ite(okc, nv, old.T), out.typ})
		return []Val{{okc, boolT}}, true
	case "sort.Slice", "sort.SliceStable":
		// sort.Slice(x, less): x's elements are rearranged in place; afterwards no later element is less than an
		// earlier one, every element comes from the old contents and every old element is still present
		// (multiplicities are not tracked).
		lit, ok := ast.Unparen(e.Args[1]).(*ast.FuncLit)
		root := ex.rootLvalue(e.Args[0])
		if !ok || root == nil || root.kind == lvBlank {
			break
		}
		ex.libUsed[full+" (sorted permutation, multiplicities not tracked)"] = true
		old := ex.eval(e.Args[0])
		elem := elemTypeOf(old.Typ)
		ex.quiet++
		rv := ex.load(root)
		ex.quiet--
		ex.assert("O", "write-root["+root.str+"]", Eq(SBase(rv.T), SBase(old.T)))
		if fc := ex.topContract(); fc != nil && fc.NoSharedAppend {
			ex.assert("O", "sort-shared["+root.str+"]", ex.locallyOwned(old.T))
		}
		nb := ex.fresh("arr", SInt)
		ex.assume(Lt(I(1), nb))
		ns := MkSlice(nb, SOff(old.T), SLen(old.T), SCap(old.T))
		ex.store(root, Val{MkSlice(nb, SOff(rv.T), SLen(rv.T), SCap(rv.T)), rv.Typ})
		i, j := Const("i", SInt), Const("j", SInt)
		n := SLen(old.T)
		inI, inJ := And(Le(I(0), i), Lt(i, n)), And(Le(I(0), j), Lt(j, n))
		ex.assume(Forall([]string{"i"}, Imp(inI, Exists([]string{"j"}, And(inJ, Eq(ex.elemAt(ns, elem, i), ex.elemAt(old.T, elem, j))))), ex.elemAt(ns, elem, i)))
		ex.assume(Forall([]string{"j"}, Imp(inJ, Exists([]string{"i"}, And(inI, Eq(ex.elemAt(ns, elem, i), ex.elemAt(old.T, elem, j))))), ex.elemAt(old.T, elem, j)))
		ex.boundNames = append(ex.boundNames, "i", "j")
		lessJI := ex.evalPredLit(lit, []*T{j, i}, []types.Type{typInt, typInt})
		ex.boundNames = ex.boundNames[:len(ex.boundNames)-2]
		ex.assume(ForallMulti([]string{"i", "j"}, Imp(And(Le(I(0), i), Lt(i, j), Lt(j, n)), Not(lessJI)), []*T{ex.elemAt(ns, elem, i), ex.elemAt(ns, elem, j)}))
		return nil, true
	case "slices.DeleteFunc":
		// executed as the loop it is: out := s[:0:0]; for i := range s { if !del(s[i]) { out = append(out, s[i]) } }; return out.
		// The loop is numbered like a source loop (loop N "slices.DeleteFunc(...") and takes invariants over dfi (index),
		// dfout (elements kept so far) and dfin (the operand). The result is a new slice value: that DeleteFunc also
		// rearranges the operand's array in place is not modelled (the operand must not be used afterwards).
		lit, ok := ast.Unparen(e.Args[1]).(*ast.FuncLit)
		if !ok {
			break
		}
		ex.libUsed[full+" (as a loop; in-place rearrangement of the operand not modelled)"] = true
		sv := ex.eval(e.Args[0])
		elem := elemTypeOf(sv.Typ)
		n := ex.loopOrdinalPeek(e.Pos())
		idxKey := fmt.Sprintf("$dfi%d.%s", n, ex.name)
		outKey := fmt.Sprintf("$dfout%d.%s", n, ex.name)
		ex.heapSort[idxKey] = SInt
		ex.heapSort[outKey] = SSlice
		ex.keyType[outKey] = sv.Typ
		ex.st.env[idxKey] = I(0)
		ex.st.env[outKey] = MkSlice(I(0), I(0), I(0), I(0))
		lsig, _ := ex.typeOf(lit).(*types.Signature)
		lp := &loopParts{pos: e.Pos(), text: "slices.DeleteFunc(" + exprString(e.Args[0]), scopePos: e.Pos()}
		lp.cond = func() *T { return Lt(ex.get(ex.st, idxKey), SLen(sv.T)) }
		lp.autoInv = func() *T { i := ex.get(ex.st, idxKey); return And(Le(I(0), i), Le(i, SLen(sv.T))) }
		lp.autoVar = func() *T { return Sub(SLen(sv.T), ex.get(ex.st, idxKey)) }
		lp.bodyPre = func() {
			i := ex.get(ex.st, idxKey)
			x := ex.elemAt(sv.T, elem, i)
			if !isByte(elem) {
				ex.assume(ex.typeFact(elem, x))
			}
			x = ex.named(x, "dfelem")
			var del *T = ex.fresh("del", SBool)
			if lsig != nil {
				rs := ex.inlineBody("lit:deletefunc@"+ex.posString(lit.Pos()), lsig, lit.Type, lit.Body, nil, nil, []Val{{x, elem}}, ex.pkg, ex.curContract(), false)
				if len(rs) == 1 {
					del = rs[0].T
				}
			}
			if ex.st.dead {
				return
			}
			base := ex.st
			keep := ex.branch(base, Not(del), func() {
				ex.st.env[outKey] = ex.appendOne(ex.get(ex.st, outKey), x, elem)
			})
			drop := ex.branch(base, del, func() {})
			ex.st = ex.merge([]*State{keep, drop})
		}
		lp.post = func() { ex.st.env[idxKey] = Add(ex.get(ex.st, idxKey), I(1)) }
		lp.bindIdx = func(sc *specCtx) {
			sc.stateVars["dfi"] = stateVar{idxKey, typInt}
			sc.stateVars["dfout"] = stateVar{outKey, sv.Typ}
			sc.vars["dfin"] = sv
		}
		ex.execLoop(lp)
		out := ex.get(ex.st, outKey)
		delete(ex.st.env, idxKey)
		delete(ex.st.env, outKey)
		return []Val{{out, sv.Typ}}, true
	case "slices.IndexFunc", "slices.ContainsFunc":
		ex.libUsed[full] = true
		s := ex.eval(e.Args[0])
		elem := elemTypeOf(s.Typ)
		lit, ok := ast.Unparen(e.Args[1]).(*ast.FuncLit)
		if !ok {
			break
		}
		pred := func(x *T) *T { return ex.evalPredLit(lit, []*T{x}, []types.Type{elem}) }
		r := ex.fresh("idx", SInt)
		j := Const("j", SInt)
		ex.boundNames = append(ex.boundNames, "j")
		pj := pred(ex.elemAt(s.T, elem, j))
		ex.boundNames = ex.boundNames[:len(ex.boundNames)-1]
		ex.assume(And(Le(I(-1), r), Lt(r, SLen(s.T)),
			Imp(Le(I(0), r), pred(ex.elemAt(s.T, elem, r))),
			Forall([]string{"j"}, Imp(And(Le(I(0), j), Lt(j, Ite(Le(I(0), r), r, SLen(s.T)))), Not(pj)))))
		if full == "slices.ContainsFunc" {
			return []Val{{Le(I(0), r), boolT}}, true
		}
		return []Val{{r, typInt}}, true
	}
	return nil, false
}

// evalPredLit evaluates a single-return pure function literal on symbolic arguments (which may contain bound variables).
func (ex *Exec) evalPredLit(lit *ast.FuncLit, args []*T, typs []types.Type) *T {
	if len(lit.Body.List) != 1 {
		ex.errorf("predicate literal must be a single return statement")
		return ex.fresh("pred", SBool)
	}
	ret, ok := lit.Body.List[0].(*ast.ReturnStmt)
	if !ok || len(ret.Results) != 1 {
		ex.errorf("predicate literal must be a single return statement")
		return ex.fresh("pred", SBool)
	}
	saved := ex.st
	ex.st = saved.clone()
	i := 0
	for _, fld := range lit.Type.Params.List {
		for _, n := range fld.Names {
			if obj, ok := ex.info().Defs[n].(*types.Var); ok && i < len(args) {
				ex.noSR[obj] = true
				ex.st.env[ex.keyOf(obj)] = args[i]
			}
			i++
		}
	}
	nf := len(ex.facts)
	ex.quiet++
	v := ex.eval(ret.Results[0])
	ex.quiet--
	ex.facts = ex.facts[:nf]
	ex.factScopes = ex.factScopes[:nf]
	ex.st = saved
	return v.T
}

func (ex *Exec) builderID(t *T) string {
	if ex.builders[t.String()] {
		return strings.TrimPrefix(t.String(), "ref.builder!")
	}
	return ""
}

func (ex *Exec) builderBuf(st *State, id string) *T {
	ln := ex.get(st, "$bld."+id+".len")
	return MkSlice(Const("bld"+id+".base", SInt), I(0), ln, ln)
}

func (ex *Exec) builderAppendBytes(id string, vals []*T) {
	base := Const("bld"+id+".base", SInt)
	p := ex.get(ex.st, "$bld."+id+".len")
	for i, v := range vals {
		ex.assume(Eq(App("memB", SInt, base, Add(p, I(int64(i)))), v))
	}

	ex.st.env["$bld."+id+".len"] = Add(p, I(int64(len(vals))))
}

// libModelVals handles library calls on evaluated arguments.
func (ex *Exec) libModelVals(full string, callee *types.Func, recv *Val, args []Val, resTypes []types.Type) ([]Val, bool) {
	boolT := types.Typ[types.Bool]
	errT := types.Universe.Lookup("error").Type()
	switch full {
	case "golang.org/x/crypto/cryptobyte.NewBuilder":
		ex.libUsed["cryptobyte.Builder"] = true
		ref := ex.fresh("ref.builder", SInt)
		ex.assume(Lt(I(0), ref))
		ex.builders[ref.String()] = true
		id := ex.builderID(ref)
		ex.declare("bld"+id+".base", nil, SInt)
		ex.declAxiom("bld"+id+".base$nn", Lt(I(1), Const("bld"+id+".base", SInt)))
		ex.heapSort["$bld."+id+".len"] = SInt
		ex.heapSort["$bld."+id+".err"] = SBool
		ex.st.env["$bld."+id+".len"] = I(0)
		ex.st.env["$bld."+id+".err"] = False
		if args[0].T != NilSlice {
			ex.assumptions["cryptobyte.NewBuilder called with a non-nil buffer: initial content ignored"] = true
		}
		return []Val{{ref, resTypes[0]}}, true
	case "maps.Clone":
		ex.libUsed[full] = true
		mt, ok := args[0].Typ.Underlying().(*types.Map)
		if !ok {
			break
		}
		has, val := ex.mapHeaps(mt)
		src := args[0].T
		nm := ex.alloc("map")
		for _, k := range []string{has, val, "$M.len"} {
			cur := ex.get(ex.st, k)
			ex.st.env[k] = Store(cur, nm, Select(cur, src))
		}
		// a nil map clones to nil
		return []Val{{Ite(Eq(src, I(0)), I(0), nm), resTypes[0]}}, true
	case "slices.Clone":
		ex.libUsed[full] = true
		s := args[0].T
		return []Val{{MkSlice(SBase(s), SOff(s), SLen(s), SLen(s)), resTypes[0]}}, true
	case "bytes.Equal":
		ex.libUsed[full] = true
		return []Val{{bytesEq(args[0].T, args[1].T), boolT}}, true
	case "slices.Equal":
		ex.libUsed[full] = true
		elem := elemTypeOf(args[0].Typ)
		if isByte(elem) {
			return []Val{{bytesEq(args[0].T, args[1].T), boolT}}, true
		}
		return []Val{{ex.slicesEqualTerm(args[0].T, args[1].T, elem), boolT}}, true
	case "slices.Contains":
		ex.libUsed[full] = true
		elem := elemTypeOf(args[0].Typ)
		a := args[0].T
		k := Const("k", SInt)
		x := ex.coerce(args[1], elem)
		eq := ex.valueEq(ex.elemAt(a, elem, k), x.T, elem)
		return []Val{{Exists([]string{"k"}, And(Le(I(0), k), Lt(k, SLen(a)), eq)), boolT}}, true
	case "errors.New":
		ex.libUsed[full] = true
		return []Val{{ex.newError(nil), errT}}, true
	case "errors.Is":
		ex.libUsed[full] = true
		return []Val{{And(Ne(args[0].T, I(0)), ex.errIs(args[0].T, args[1].T)), boolT}}, true
	case "(*sync/atomic.Int32).Load":
		ex.libUsed["atomic.Int32 (sequential integer)"] = true
		ex.ensureHeap("$G.atomic32", SInt)
		v := Select(ex.get(ex.st, "$G.atomic32"), recv.T)
		ex.assume(ex.typeFact(types.Typ[types.Int32], v))
		return []Val{{v, resTypes[0]}}, true
	case "(*sync/atomic.Int32).Add":
		ex.libUsed["atomic.Int32 (sequential integer)"] = true
		ex.ensureHeap("$G.atomic32", SInt)
		cur := ex.get(ex.st, "$G.atomic32")
		ex.assume(ex.typeFact(types.Typ[types.Int32], Select(cur, recv.T)))
		nv := Add(Select(cur, recv.T), args[0].T)
		// int32 wrap-around
		w := Mod(Add(nv, pow2(31)), pow2(32))
		nv = Sub(w, pow2(31))
		ex.checkWrite("$G.atomic32", recv.T)
		ex.st.env["$G.atomic32"] = Store(cur, recv.T, nv)
		return []Val{{nv, resTypes[0]}}, true
	case "(*sync.Mutex).Lock", "(*sync.Mutex).Unlock", "(*sync.RWMutex).Lock", "(*sync.RWMutex).Unlock", "(*sync.RWMutex).RLock", "(*sync.RWMutex).RUnlock", "(*sync.WaitGroup).Add", "(*sync.WaitGroup).Done", "(*sync.WaitGroup).Wait":
		ex.assumptions["sequential execution: locks and wait groups are no-ops"] = true
		return nil, true
	case "log.Printf", "log.Println", "log.Print":
		return nil, true
	case "fmt.Sprintf", "fmt.Sprint", "fmt.Fprintf":
		r := ex.havocResults(resTypes, "fmt")
		return r, true
	}
	if strings.HasPrefix(full, "(*"+cbBuilder+").") && recv != nil {
		ex.libUsed["cryptobyte.Builder"] = true
		id := ex.builderID(recv.T)
		if id == "" {
			ex.errorf("builder method on unknown builder")
			return ex.havocResults(resTypes, "bld"), true
		}
		// big-endian bytes of v as fresh byte constants tied to v by a linear equation (no div/mod)
		addBE := func(v *T, n int) {
			var bs []*T
			sum := I(0)
			for i := 0; i < n; i++ {
				bt := ex.fresh("byte", SInt)
				ex.assume(And(Le(I(0), bt), Lt(bt, I(256))))
				bs = append(bs, bt)
				sum = Add(Mul(sum, I(256)), bt)
				if i == 0 {
					sum = bt
				}
			}
			ex.assume(Imp(And(Le(I(0), v), Lt(v, pow2(uint(8*n)))), Eq(sum, v)))
			ex.builderAppendBytes(id, bs)
		}
		switch callee.Name() {
		case "AddUint8":
			ex.builderAppendBytes(id, []*T{args[0].T})
			return nil, true
		case "AddUint16":
			addBE(args[0].T, 2)
			return nil, true
		case "AddUint24":
			addBE(Mod(args[0].T, pow2(24)), 3)
			return nil, true
		case "AddUint32":
			addBE(args[0].T, 4)
			return nil, true
		case "AddBytes":
			base := Const("bld"+id+".base", SInt)
			p := ex.get(ex.st, "$bld."+id+".len")
			s := args[0].T
			k := Const("k", SInt)
			ex.assume(Forall([]string{"k"}, Imp(And(Le(p, k), Lt(k, Add(p, SLen(s)))), Eq(App("memB", SInt, base, k), App("memB", SInt, SBase(s), Add(SOff(s), Sub(k, p))))), App("memB", SInt, base, k)))
			ex.st.env["$bld."+id+".len"] = Add(p, SLen(s))
			return nil, true
		case "Bytes":
			berr := ex.get(ex.st, "$bld."+id+".err")
			buf := ex.builderBuf(ex.st, id)
			e := ex.fresh("builderr", SInt)
			ex.assume(Imp(berr, And(Lt(I(10000), e), ex.notRepoSentinel(e))))
			return []Val{{Ite(berr, NilSlice, buf), resTypes[0]}, {Ite(berr, e, I(0)), errT}}, true
		case "BytesOrPanic":
			berr := ex.get(ex.st, "$bld."+id+".err")
			ex.assert("S", "builder-error-free", Not(berr))
			return []Val{{ex.builderBuf(ex.st, id), resTypes[0]}}, true
		}
		ex.errorf("unmodelled cryptobyte.Builder method %s", callee.Name())
		return ex.havocResults(resTypes, "bld"), true
	}
	return nil, false
}

// fmtIdTerm is the content identity of fmt.Sprintf(format, vals...): an uninterpreted function of the format literal
// and of the argument values (strings and byte slices by content).
func (ex *Exec) fmtIdTerm(format string, vals []Val) *T {
	args := []*T{App("cid", SInt, ex.strLit(format))}
	sorts := []Sort{SInt}
	for _, v := range vals {
		switch v.T.S {
		case SSlice:
			args = append(args, App("cid", SInt, v.T))
		case SBool:
			args = append(args, Ite(v.T, I(1), I(0)))
		default:
			args = append(args, v.T)
		}
		sorts = append(sorts, SInt)
	}
	name := fmt.Sprintf("fmtId.%d", len(vals))
	ex.declare(name, sorts, SInt)
	return App(name, SInt, args...)
}

// notRepoSentinel states that e is none of, and wraps none of, the repository's sentinel errors.
func (ex *Exec) notRepoSentinel(e *T) *T {
	var cs []*T
	for _, s := range ex.prog.repoSentinels {
		c := ex.globalConst(s)
		cs = append(cs, Not(ex.errIs(e, c)), Ne(e, c))
	}
	return And(cs...)
}

// ---- maps ----
//
// A map value is a reference; its contents live in global heaps indexed by the reference:
//   $M.has : ref -> key -> Bool, $M.val<sort> : ref -> key -> value, $M.len : ref -> Int.
// Keys are Ints; string keys are interned through strKey.

func mapValKey(s Sort) string {
	switch s {
	case SBool:
		return "$M.valO"
	case SSlice:
		return "$M.valS"
	}
	return "$M.valI"
}

func (ex *Exec) mapHeaps(mt *types.Map) (has, val string) {
	vs := sortOf(mt.Elem())
	ex.heapSort["$M.has"] = arrSortOf(SArrIB)
	val = mapValKey(vs)
	ex.heapSort[val] = arrSortOf(arrSortOf(vs))
	ex.heapSort["$M.len"] = SArrII
	return "$M.has", val
}

func (ex *Exec) mapKey(k Val) *T {
	if k.T.S == SSlice {
		// a string key is keyed by its content identity (cid: bytesEq(a, b) = (cid a = cid b) on every bytesEq term)
		key := App("cid", SInt, k.T)
		for _, bn := range ex.boundNames {
			if strings.Contains(k.T.str, " "+bn+")") || strings.Contains(k.T.str, " "+bn+" ") || k.T.str == bn {
				// a key under a quantifier: no ground facts (they would mention the bound variable)
				return key
			}
		}
		ex.strKeys = append(ex.strKeys, k.T)
		// name the comparison with every earlier string key, so that "different contents, different key" is available
		for _, o := range ex.strKeys[:len(ex.strKeys)-1] {
			if o != k.T {
				ex.assume(Eq(bytesEq(o, k.T), Eq(App("cid", SInt, o), key)))
			}
		}
		return key
	}
	if st, ok := k.Typ.Underlying().(*types.Struct); ok {
		if !hasStringField(st) {
			// constructor terms over scalar fields: equal terms iff equal values
			return k.T
		}
		// a struct with string fields is keyed by the contents of those strings
		name := "skey." + structName(k.Typ)
		var parts []*T
		var sorts []Sort
		for i := 0; i < st.NumFields(); i++ {
			f := st.Field(i)
			parts = append(parts, ex.mapKey(Val{ex.vfield(k.T, k.Typ, f), f.Type()}))
			sorts = append(sorts, SInt)
		}
		if _, ok := ex.decls[name]; !ok {
			ex.declare(name, sorts, SInt)
			var bvs []string
			var xs []*T
			for i := range parts {
				bvs = append(bvs, fmt.Sprintf("x%d", i))
				xs = append(xs, Const(fmt.Sprintf("x%d", i), SInt))
			}
			app := App(name, SInt, xs...)
			var inj []*T
			for i := range parts {
				inv := fmt.Sprintf("%s$%d", name, i)
				ex.declare(inv, []Sort{SInt}, SInt)
				inj = append(inj, Eq(App(inv, SInt, app), xs[i]))
			}
			ex.declAxiom(name+"$inj", Forall(bvs, And(inj...), app))
		}
		return App(name, SInt, parts...)
	}
	if k.T.S == SBool {
		return Ite(k.T, I(1), I(0))
	}
	return k.T
}

func hasStringField(st *types.Struct) bool {
	for i := 0; i < st.NumFields(); i++ {
		switch u := st.Field(i).Type().Underlying().(type) {
		case *types.Basic:
			if u.Info()&types.IsString != 0 {
				return true
			}
		case *types.Struct:
			if hasStringField(u) {
				return true
			}
		}
	}
	return false
}

func (ex *Exec) newMap(mt *types.Map) *T {
	has, _ := ex.mapHeaps(mt)
	m := ex.alloc("map")
	h := ex.get(ex.st, has)
	empty := "emptyHas"
	ex.declare(empty, nil, SArrIB)
	ex.declAxiom(empty+"$def", Forall([]string{"k"}, Not(Select(Const(empty, SArrIB), Const("k", SInt)))))
	ex.st.env[has] = Store(h, m, Const(empty, SArrIB))
	ex.st.env["$M.len"] = Store(ex.get(ex.st, "$M.len"), m, I(0))
	return m
}

func (ex *Exec) mapGet(m Val, mt *types.Map, k Val) (*T, *T) { return ex.mapGetIn(ex.st, m, mt, k) }

// rawKey: a specification-level key (a quantified variable ranging over canonical keys) is used as is.
func rawKey(k Val, mt *types.Map) bool {
	if k.Typ != typInt {
		return false
	}
	b, ok := mt.Key().Underlying().(*types.Basic)
	return !ok || b.Info()&types.IsInteger == 0
}

func (ex *Exec) mapGetIn(st *State, m Val, mt *types.Map, k Val) (*T, *T) {
	has, val := ex.mapHeaps(mt)
	var kk *T
	if rawKey(k, mt) {
		kk = k.T
	} else {
		kk = ex.mapKey(ex.coerce(k, mt.Key()))
	}
	h := Select(Select(ex.get(st, has), m.T), kk)
	h = And(Ne(m.T, I(0)), h)
	v := Select(Select(ex.get(st, val), m.T), kk)
	if st == ex.st {
		ex.assume(ex.typeFact(mt.Elem(), v))
	}
	zero := ex.zeroValue(mt.Elem())
	return Ite(h, v, zero), h
}

func (ex *Exec) mapLenIn(st *State, m Val, mt *types.Map) *T {
	ex.mapHeaps(mt)
	return Ite(Eq(m.T, I(0)), I(0), Select(ex.get(st, "$M.len"), m.T))
}

func (ex *Exec) mapSet(m Val, mt *types.Map, k, v Val) {
	has, val := ex.mapHeaps(mt)
	ex.assert("S", "nil-map-write", Ne(m.T, I(0)))
	ex.checkWrite("$M.has", m.T)
	kk := ex.mapKey(ex.coerce(k, mt.Key()))
	hs := ex.get(ex.st, has)
	vs := ex.get(ex.st, val)
	had := Select(Select(hs, m.T), kk)
	ex.st.env[has] = Store(hs, m.T, Store(Select(hs, m.T), kk, True))
	ex.st.env[val] = Store(vs, m.T, Store(Select(vs, m.T), kk, ex.coerce(v, mt.Elem()).T))
	ln := ex.get(ex.st, "$M.len")
	ex.st.env["$M.len"] = Store(ln, m.T, Ite(had, Select(ln, m.T), Add(Select(ln, m.T), I(1))))
}

func (ex *Exec) mapDelete(m Val, mt *types.Map, k Val) {
	has, _ := ex.mapHeaps(mt)
	if ex.oldState != nil {
		ex.branch(ex.st, Ne(m.T, I(0)), func() { ex.checkWrite("$M.has", m.T) })
	}
	kk := ex.mapKey(ex.coerce(k, mt.Key()))
	hs := ex.get(ex.st, has)
	had := And(Ne(m.T, I(0)), Select(Select(hs, m.T), kk))
	ex.st.env[has] = Store(hs, m.T, Store(Select(hs, m.T), kk, False))
	ln := ex.get(ex.st, "$M.len")
	ex.st.env["$M.len"] = Store(ln, m.T, Ite(had, Sub(Select(ln, m.T), I(1)), Select(ln, m.T)))
}

var _ = fmt.Sprint

// slicesEqualTerm is the meaning of slices.Equal(a, b).
func (ex *Exec) slicesEqualTerm(a, b *T, elem types.Type) *T {
	if isByte(elem) {
		return bytesEq(a, b)
	}
	k := Const("k", SInt)
	eq := ex.valueEq(ex.elemAt(a, elem, k), ex.elemAt(b, elem, k), elem)
	return And(Eq(SLen(a), SLen(b)), Forall([]string{"k"}, Imp(And(Le(I(0), k), Lt(k, SLen(a))), eq)))
}
