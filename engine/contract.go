package main

import (
	"fmt"
	"go/ast"
	"go/parser"
	"go/token"
	"os"
	"regexp"
	"strings"
)

// Clause is one requires/ensures/invariant line.
type Clause struct {
	FromBase bool // behavior runs: clause of the base contract, already proved in the default run
	Label    string
	Text     string
	Expr     ast.Expr
	Line     string // file:line of the contract text
}

type LoopContract struct {
	N          int
	Hint       string
	Invariants []*Clause
	Decreases  *Clause
	IndexName  string
}

// ParamContract is a contract on a function-typed parameter or named func type.
type ParamContract struct {
	Name     string
	Params   []string
	Results  []string
	Requires []*Clause
	Ensures  []*Clause
	Modifies []*Clause
}

// Behavior is a named case of a function contract: it is verified separately under its assumptions,
// and exported to callers as assumes ==> ensures.
type Behavior struct {
	Name      string
	Assumes   []*Clause
	Ensures   []*Clause
	Loops     map[int]*LoopContract
	Callsites []*CallsiteClause
}

type FuncContract struct {
	Behaviors      []*Behavior
	Key            string // normalised name: "NewConn", "Conn.Read"
	Pkg            string // package path
	Results        []string
	Requires       []*Clause
	Ensures        []*Clause
	Modifies       []*Clause
	Allocates      []string
	Writes         []string
	GhostNames     []string // ghost parameters: universally quantified in the callee, instantiated by callers via bind
	GhostTypes     []string
	Checks         []*Clause // like ensures, but may name locals of the function; checked, never assumed by callers
	Binds          []*Bind
	Callsites      []*CallsiteClause
	Captures       []*Capture // names bound to results of calls, usable in check clauses
	Loops          map[int]*LoopContract
	Params         map[string]*ParamContract
	Inline         bool
	Terminates     bool
	Extern         bool
	ExternSig      string // params text for extern
	ParamNames     []string
	Trusted        bool // contract is assumed, body not verified
	Line           string
	Uses           []string // lemma names to assume inside
	NoSharedAppend bool
	GhostSets      []*GhostSet // ghost assignments performed at the function's exit (definitional, not proof obligations)
	IterBody       bool        // the function returns a function literal (iterator): its body is verified as part of this unit
	Closures       []*ClosureContract
	GoBodies       bool // bodies of go statements with function literals are executed (thread-modular, no interference)
}

// GhostSet is "ghostset g(key) = value": at every exit the ghost cell g(key) is assigned value (both evaluated in the
// post-state, before the assignment). The cell must be named in the modifies clause.
type GhostSet struct {
	Target *Clause // g(key)
	Value  *Clause
}

// CallsiteClause is an obligation on the arguments of a call made by the function (matched by the call's source text prefix).
type CallsiteClause struct {
	CallText string
	Req      *Clause
	Stmt     bool // "at": the text is the beginning of a statement; the clause is proved just before it and then assumed
	Lemma    bool // "at ... lemma[..]": a proof step only; if its statement is gone or it cannot be evaluated it is dropped
}

// ClosureContract: postconditions of a function literal of the function (matched by the beginning of its source text). The
// literal's body is executed once, with arbitrary parameters, where the literal is created; its effects are discarded.
type ClosureContract struct {
	Text    string
	Results []string
	Ensures []*Clause
}

// Capture names the i-th result of the (last executed) call whose source text starts with CallText.
type Capture struct {
	CallText string
	Name     string
	Index    int
}

// Bind instantiates a ghost parameter for the calls made while evaluating a call expression of the given source text.
type Bind struct {
	CallText string
	Name     string
	Value    *Clause
}

type PureDef struct {
	Name       string
	Pkg        string
	ParamsTxt  string
	ParamName  []string
	ParamType  []string
	ResType    string
	Body       *Clause
	Rec        bool
	Triggers   []*Clause
	InductVar  string
	InductUpto *Clause
	Opaque     bool // declared only (uninterpreted), axioms given separately
	Line       string
}

type GhostDef struct {
	Name    string
	Pkg     string
	ResType string
	Fn      bool // immutable function
	NArgs   int
	ArgType []string
	Line    string
}

type AxiomDef struct {
	Name  string
	Pkg   string
	Body  *Clause
	Lemma bool
	Uses  []string
}

type Contracts struct {
	Funcs     map[string]*FuncContract // key: pkgpath + "." + Key
	Pures     map[string]*PureDef
	Ghosts    map[string]*GhostDef
	Axioms    []*AxiomDef
	FuncTypes map[string]*ParamContract
	Lemmas    map[string]*PureDef
	NAssume   int
	Files     []string
}

func newContracts() *Contracts {
	return &Contracts{
		Funcs:     map[string]*FuncContract{},
		Pures:     map[string]*PureDef{},
		Ghosts:    map[string]*GhostDef{},
		FuncTypes: map[string]*ParamContract{},
		Lemmas:    map[string]*PureDef{},
	}
}

var reSpecLine = regexp.MustCompile(`^\s*//\s?@(.*)$`)

func normFuncKey(s string) string {
	s = strings.ReplaceAll(s, "(", "")
	s = strings.ReplaceAll(s, ")", "")
	s = strings.ReplaceAll(s, "*", "")
	return strings.TrimSpace(s)
}

var clauseKeywords = map[string]bool{
	"func": true, "requires": true, "ensures": true, "modifies": true, "allocates": true,
	"writes": true, "loop": true, "invariant": true, "decreases": true, "param": true,
	"inline": true, "terminates": true, "pure": true, "purerec": true, "axiom": true,
	"ghost": true, "ghostfn": true, "lemma": true, "extern": true, "functype": true,
	"trusted": true, "opaque": true, "noshare": true, "ghostparam": true, "check": true, "bind": true, "behavior": true, "assumes": true, "callsite": true, "capture": true, "iterbody": true, "index": true, "use": true, "ghostset": true, "at": true, "gobodies": true, "closure": true,
}

// rewriteImplies converts "A ==> B" to "implies(A, B)" and "A <==> B" to "iff(A,B)" at every nesting level.
func rewriteImplies(s string) string {
	parts := splitTop(s, ",")
	for i, p := range parts {
		parts[i] = rewriteOne(p)
	}
	return strings.Join(parts, ",")
}

func splitTop(s string, sep string) []string {
	var out []string
	depth := 0
	last := 0
	inStr := byte(0)
	for i := 0; i < len(s); i++ {
		c := s[i]
		if inStr != 0 {
			if c == '\\' {
				i++
			} else if c == inStr {
				inStr = 0
			}
			continue
		}
		switch c {
		case '"', '\'', '`':
			inStr = c
		case '(', '[', '{':
			depth++
		case ')', ']', '}':
			depth--
		default:
			if depth == 0 && strings.HasPrefix(s[i:], sep) {
				out = append(out, s[last:i])
				last = i + len(sep)
				i += len(sep) - 1
			}
		}
	}
	out = append(out, s[last:])
	return out
}

func topIndex(s, sep string) int {
	depth := 0
	inStr := byte(0)
	for i := 0; i < len(s); i++ {
		c := s[i]
		if inStr != 0 {
			if c == '\\' {
				i++
			} else if c == inStr {
				inStr = 0
			}
			continue
		}
		switch c {
		case '"', '\'', '`':
			inStr = c
		case '(', '[', '{':
			depth++
		case ')', ']', '}':
			depth--
		default:
			if depth == 0 && strings.HasPrefix(s[i:], sep) {
				return i
			}
		}
	}
	return -1
}

func rewriteOne(s string) string {
	if i := topIndex(s, "<==>"); i >= 0 {
		return "iff(" + rewriteOne(s[:i]) + "," + rewriteOne(s[i+4:]) + ")"
	}
	if i := topIndex(s, "==>"); i >= 0 {
		return "implies(" + rewriteOne(s[:i]) + "," + rewriteOne(s[i+3:]) + ")"
	}
	// descend into groups
	var sb strings.Builder
	inStr := byte(0)
	for i := 0; i < len(s); i++ {
		c := s[i]
		if inStr != 0 {
			sb.WriteByte(c)
			if c == '\\' && i+1 < len(s) {
				i++
				sb.WriteByte(s[i])
			} else if c == inStr {
				inStr = 0
			}
			continue
		}
		if c == '"' || c == '\'' || c == '`' {
			inStr = c
			sb.WriteByte(c)
			continue
		}
		if c == '(' || c == '[' {
			// find matching
			closeC := byte(')')
			if c == '[' {
				closeC = ']'
			}
			depth := 0
			j := i
			in2 := byte(0)
			for ; j < len(s); j++ {
				d := s[j]
				if in2 != 0 {
					if d == '\\' {
						j++
					} else if d == in2 {
						in2 = 0
					}
					continue
				}
				if d == '"' || d == '\'' || d == '`' {
					in2 = d
					continue
				}
				if d == '(' || d == '[' || d == '{' {
					depth++
				} else if d == ')' || d == ']' || d == '}' {
					depth--
					if depth == 0 {
						break
					}
				}
			}
			if j >= len(s) {
				sb.WriteString(s[i:])
				break
			}
			_ = closeC
			sb.WriteByte(c)
			sb.WriteString(rewriteImplies(s[i+1 : j]))
			sb.WriteByte(s[j])
			i = j
			continue
		}
		sb.WriteByte(c)
	}
	return sb.String()
}

func parseSpecExpr(text, where string) (ast.Expr, error) {
	t := rewriteImplies(text)
	e, err := parser.ParseExpr(t)
	if err != nil {
		return nil, fmt.Errorf("%s: cannot parse spec expression %q: %v", where, text, err)
	}
	return e, nil
}

func mkClause(text, where string) (*Clause, error) {
	text = strings.TrimSpace(text)
	label := ""
	if strings.HasPrefix(text, "[") {
		if j := strings.Index(text, "]"); j > 0 {
			label = text[1:j]
			text = strings.TrimSpace(text[j+1:])
		}
	}
	e, err := parseSpecExpr(text, where)
	if err != nil {
		return nil, err
	}
	return &Clause{Label: label, Text: text, Expr: e, Line: where}, nil
}

type rawLine struct {
	kw    string
	rest  string
	where string
}

// readSpecLines extracts //@ lines, joining continuation lines.
func readSpecLines(path string) ([]rawLine, int, error) {
	data, err := os.ReadFile(path)
	if err != nil {
		return nil, 0, err
	}
	var out []rawLine
	nassume := 0
	for i, ln := range strings.Split(string(data), "\n") {
		m := reSpecLine.FindStringSubmatch(ln)
		if m == nil {
			continue
		}
		body := strings.TrimSpace(m[1])
		if body == "" {
			continue
		}
		// strip trailing comment " // ..."
		if j := topIndex(body, " // "); j >= 0 {
			body = strings.TrimSpace(body[:j])
		}
		where := fmt.Sprintf("%s:%d", path, i+1)
		kw := body
		rest := ""
		if j := strings.IndexAny(body, " \t[("); j > 0 {
			kw = body[:j]
			rest = strings.TrimSpace(body[j:])
			if body[j] == '[' || body[j] == '(' {
				rest = body[j:]
			}
		}
		if kw == "assume" {
			nassume++
		}
		if !clauseKeywords[kw] {
			if len(out) == 0 {
				return nil, 0, fmt.Errorf("%s: continuation line without clause", where)
			}
			out[len(out)-1].rest += " " + body
			continue
		}
		out = append(out, rawLine{kw, rest, where})
	}
	return out, nassume, nil
}

var reFuncHdr = regexp.MustCompile(`^(.*?)(?:\s+returns\s*\((.*)\))?$`)
var reParamHdr = regexp.MustCompile(`^([\w.]+)\((.*?)\)\s*([^=]*?)\s*(?:=\s*(.*))?$`)
var rePureHdr = regexp.MustCompile(`^(\w+)\((.*?)\)\s*([^=]*?)\s*(?:=\s*(.*))?$`)

func splitParams(s string) (names, types []string) {
	s = strings.TrimSpace(s)
	if s == "" {
		return
	}
	for _, p := range splitTop(s, ",") {
		p = strings.TrimSpace(p)
		j := strings.IndexAny(p, " \t")
		if j < 0 {
			names = append(names, p)
			types = append(types, "")
			continue
		}
		names = append(names, p[:j])
		types = append(types, strings.TrimSpace(p[j:]))
	}
	// propagate types backwards: "a, b int"
	for i := len(types) - 2; i >= 0; i-- {
		if types[i] == "" {
			types[i] = types[i+1]
		}
	}
	return
}

func (cs *Contracts) loadFile(path, pkgPath string) error {
	lines, nassume, err := readSpecLines(path)
	if err != nil {
		return err
	}
	cs.NAssume += nassume
	cs.Files = append(cs.Files, path)
	var cur *FuncContract
	var curLoop *LoopContract
	var curParam *ParamContract
	var curBeh *Behavior
	var curClosure *ClosureContract
	for _, l := range lines {
		if l.kw == "func" || l.kw == "param" || l.kw == "loop" || l.kw == "behavior" {
			curClosure = nil
		}
		if l.kw == "func" || l.kw == "extern" || l.kw == "pure" || l.kw == "purerec" || l.kw == "lemma" || l.kw == "ghost" || l.kw == "ghostfn" || l.kw == "axiom" || l.kw == "functype" {
			curBeh = nil
		}
		switch l.kw {
		case "behavior":
			curBeh = &Behavior{Name: strings.TrimSpace(l.rest), Loops: map[int]*LoopContract{}}
			cur.Behaviors = append(cur.Behaviors, curBeh)
			curLoop, curParam = nil, nil
			continue
		case "assumes":
			if curBeh == nil {
				return fmt.Errorf("%s: assumes outside behavior", l.where)
			}
			c, err := mkClause(l.rest, l.where)
			if err != nil {
				return err
			}
			curBeh.Assumes = append(curBeh.Assumes, c)
			continue
		}
		switch l.kw {
		case "func", "extern":
			rest := l.rest
			extern := l.kw == "extern"
			if extern {
				rest = strings.TrimSpace(strings.TrimPrefix(rest, "func"))
			}
			m := reFuncHdr.FindStringSubmatch(rest)
			name := strings.TrimSpace(m[1])
			fc := &FuncContract{Pkg: pkgPath, Loops: map[int]*LoopContract{}, Params: map[string]*ParamContract{}, Line: l.where, Extern: extern}
			if extern {
				// QUALNAME(params)
				j := strings.LastIndex(name, "(")
				if j < 0 || !strings.HasSuffix(name, ")") {
					return fmt.Errorf("%s: extern needs (params)", l.where)
				}
				fc.ExternSig = name[j+1 : len(name)-1]
				fc.ParamNames, _ = splitParams(fc.ExternSig)
				name = strings.TrimSpace(name[:j])
				fc.Key = name
				fc.Trusted = true
				for _, alias := range strings.Split(name, "|") {
					cs.Funcs["extern:"+strings.TrimSpace(alias)] = fc
				}
			} else {
				fc.Key = normFuncKey(name)
				cs.Funcs[pkgPath+"."+fc.Key] = fc
			}
			if m[2] != "" {
				fc.Results, _ = splitParams(m[2])
			}
			cur, curLoop, curParam = fc, nil, nil
		case "inline":
			cur.Inline = true
		case "terminates":
			cur.Terminates = true
		case "gobodies":
			cur.GoBodies = true
		case "closure":
			// closure "literal text prefix" returns (a, b)
			rest := strings.TrimSpace(l.rest)
			if !strings.HasPrefix(rest, "\"") {
				return fmt.Errorf("%s: closure syntax: closure \"text\" returns (names)", l.where)
			}
			j := closingQuote(rest[1:])
			if j < 0 {
				return fmt.Errorf("%s: closure: unterminated text", l.where)
			}
			cl := &ClosureContract{Text: strings.ReplaceAll(rest[1:1+j], "\\\"", "\"")}
			rest = strings.TrimSpace(rest[2+j:])
			if strings.HasPrefix(rest, "returns") {
				cl.Results, _ = splitParams(strings.Trim(strings.TrimSpace(strings.TrimPrefix(rest, "returns")), "()"))
			}
			cur.Closures = append(cur.Closures, cl)
			curClosure = cl
			curParam, curLoop = nil, nil
			continue
		case "iterbody":
			cur.IterBody = true
		case "noshare":
			cur.NoSharedAppend = true
		case "trusted":
			cur.Trusted = true
		case "use":
			for _, n := range strings.Split(l.rest, ",") {
				cur.Uses = append(cur.Uses, strings.TrimSpace(n))
			}
		case "ghostparam":
			ns, ts := splitParams(l.rest)
			cur.GhostNames = append(cur.GhostNames, ns...)
			cur.GhostTypes = append(cur.GhostTypes, ts...)
		case "check":
			c, err := mkClause(l.rest, l.where)
			if err != nil {
				return err
			}
			cur.Checks = append(cur.Checks, c)
		case "callsite", "at":
			// callsite "call text prefix" requires[label] expr
			// at "statement text prefix" assert[label] expr
			rest := strings.TrimSpace(l.rest)
			if !strings.HasPrefix(rest, "\"") {
				return fmt.Errorf("%s: callsite syntax: callsite \"text\" requires[label] expr", l.where)
			}
			j := closingQuote(rest[1:])
			if j < 0 {
				return fmt.Errorf("%s: callsite: unterminated text", l.where)
			}
			callText := strings.ReplaceAll(rest[1:1+j], "\\\"", "\"")
			rest = strings.TrimSpace(rest[2+j:])
			kwd := "requires"
			isLemma := false
			if l.kw == "at" {
				kwd = "assert"
				if strings.HasPrefix(rest, "lemma") {
					kwd, isLemma = "lemma", true
				}
			}
			if !strings.HasPrefix(rest, kwd) {
				return fmt.Errorf("%s: %s needs %s", l.where, l.kw, kwd)
			}
			c, err := mkClause(strings.TrimPrefix(rest, kwd), l.where)
			if err != nil {
				return err
			}
			cc := &CallsiteClause{CallText: callText, Req: c, Stmt: l.kw == "at", Lemma: isLemma}
			if curBeh != nil {
				curBeh.Callsites = append(curBeh.Callsites, cc)
			} else {
				cur.Callsites = append(cur.Callsites, cc)
			}
		case "capture":
			// capture "call text prefix" name = resultIndex
			rest := strings.TrimSpace(l.rest)
			j := closingQuote(rest[1:])
			if !strings.HasPrefix(rest, "\"") || j < 0 {
				return fmt.Errorf("%s: capture syntax: capture \"text\" name = index", l.where)
			}
			callText := strings.ReplaceAll(rest[1:1+j], "\\\"", "\"")
			rest = strings.TrimSpace(rest[2+j:])
			var nm string
			var idx int
			if _, err := fmt.Sscanf(strings.ReplaceAll(rest, "=", " = "), "%s = %d", &nm, &idx); err != nil {
				return fmt.Errorf("%s: capture needs name = index", l.where)
			}
			cur.Captures = append(cur.Captures, &Capture{CallText: callText, Name: nm, Index: idx})
		case "ghostset":
			k := strings.Index(l.rest, "=")
			for k >= 0 && k+1 < len(l.rest) && (l.rest[k+1] == '=' || (k > 0 && strings.ContainsRune("!<>=", rune(l.rest[k-1])))) {
				n := strings.Index(l.rest[k+2:], "=")
				if n < 0 {
					k = -1
					break
				}
				k += 2 + n
			}
			if k < 0 || cur == nil {
				return fmt.Errorf("%s: ghostset syntax: ghostset g(key) = value", l.where)
			}
			tc, err := mkClause(strings.TrimSpace(l.rest[:k]), l.where)
			if err != nil {
				return err
			}
			vc, err := mkClause(strings.TrimSpace(l.rest[k+1:]), l.where)
			if err != nil {
				return err
			}
			cur.GhostSets = append(cur.GhostSets, &GhostSet{Target: tc, Value: vc})
		case "bind":
			// bind "call text" name = expr
			rest := strings.TrimSpace(l.rest)
			if !strings.HasPrefix(rest, "\"") {
				return fmt.Errorf("%s: bind syntax: bind \"call text\" name = expr", l.where)
			}
			j := closingQuote(rest[1:])
			if j < 0 {
				return fmt.Errorf("%s: bind: unterminated call text", l.where)
			}
			callText := strings.ReplaceAll(rest[1:1+j], "\\\"", "\"")
			rest = strings.TrimSpace(rest[2+j:])
			k := strings.Index(rest, "=")
			if k < 0 {
				return fmt.Errorf("%s: bind needs name = expr", l.where)
			}
			c, err := mkClause(rest[k+1:], l.where)
			if err != nil {
				return err
			}
			cur.Binds = append(cur.Binds, &Bind{CallText: callText, Name: strings.TrimSpace(rest[:k]), Value: c})
		case "requires", "ensures", "invariant", "decreases", "modifies":
			if l.kw == "modifies" {
				var parts []string
				for _, p := range splitTop(l.rest, ",") {
					// mapOf(m): the contents of map m (presence, values, length)
					if t := strings.TrimSpace(p); strings.HasPrefix(t, "mapOf(") && strings.HasSuffix(t, ")") {
						in := t[len("mapOf(") : len(t)-1]
						parts = append(parts, "mapHas("+in+")", "mapVal("+in+")", "mapLen("+in+")")
						continue
					}
					parts = append(parts, p)
				}
				for _, p := range parts {
					c, err := mkClause(p, l.where)
					if err != nil {
						return err
					}
					if curParam != nil {
						curParam.Modifies = append(curParam.Modifies, c)
					} else {
						cur.Modifies = append(cur.Modifies, c)
					}
				}
				continue
			}
			c, err := mkClause(l.rest, l.where)
			if err != nil {
				return err
			}
			switch {
			case l.kw == "invariant":
				if curLoop == nil {
					return fmt.Errorf("%s: invariant outside loop", l.where)
				}
				curLoop.Invariants = append(curLoop.Invariants, c)
			case l.kw == "decreases":
				if curLoop == nil {
					return fmt.Errorf("%s: decreases outside loop", l.where)
				}
				curLoop.Decreases = c
			case curParam != nil && l.kw == "requires":
				curParam.Requires = append(curParam.Requires, c)
			case curClosure != nil && l.kw == "ensures":
				curClosure.Ensures = append(curClosure.Ensures, c)
			case curParam != nil && l.kw == "ensures":
				curParam.Ensures = append(curParam.Ensures, c)
			case l.kw == "requires":
				cur.Requires = append(cur.Requires, c)
			case l.kw == "ensures" && curBeh != nil:
				curBeh.Ensures = append(curBeh.Ensures, c)
			case l.kw == "ensures":
				cur.Ensures = append(cur.Ensures, c)
			}
		case "allocates":
			for _, p := range strings.Split(l.rest, ",") {
				cur.Allocates = append(cur.Allocates, strings.TrimSpace(p))
			}
		case "writes":
			for _, p := range strings.Split(l.rest, ",") {
				cur.Writes = append(cur.Writes, strings.TrimSpace(p))
			}
		case "loop":
			var n int
			hint := ""
			fs := strings.SplitN(l.rest, " ", 2)
			fmt.Sscanf(fs[0], "%d", &n)
			if len(fs) > 1 {
				hint = strings.Trim(strings.TrimSpace(fs[1]), `"`)
			}
			curLoop = &LoopContract{N: n, Hint: hint}
			curParam = nil
			if curBeh != nil {
				curBeh.Loops[n] = curLoop
			} else {
				cur.Loops[n] = curLoop
			}
		case "index":
			curLoop.IndexName = strings.TrimSpace(l.rest)
		case "param", "functype":
			m := reParamHdr.FindStringSubmatch(strings.Replace(l.rest, " returns ", " ", 1))
			if m == nil {
				return fmt.Errorf("%s: bad param header", l.where)
			}
			pc := &ParamContract{Name: m[1]}
			pc.Params, _ = splitParams(m[2])
			res := strings.Trim(strings.TrimSpace(m[3]), "()")
			pc.Results, _ = splitParams(res)
			curLoop = nil
			curParam = pc
			if l.kw == "functype" {
				cs.FuncTypes[pkgPath+"."+pc.Name] = pc
				cur = &FuncContract{} // sink
			} else {
				cur.Params[pc.Name] = pc
			}
		case "pure", "purerec", "opaque":
			m := rePureHdr.FindStringSubmatch(l.rest)
			if m == nil {
				return fmt.Errorf("%s: bad pure header %q", l.where, l.rest)
			}
			pd := &PureDef{Name: m[1], Pkg: pkgPath, ParamsTxt: m[2], ResType: strings.TrimSpace(m[3]), Rec: l.kw == "purerec", Opaque: l.kw == "opaque", Line: l.where}
			pd.ParamName, pd.ParamType = splitParams(m[2])
			if !pd.Opaque {
				c, err := mkClause(m[4], l.where)
				if err != nil {
					return err
				}
				pd.Body = c
			}
			cs.Pures[pd.Name] = pd
			cur, curLoop, curParam = nil, nil, nil
		case "ghost", "ghostfn":
			m := rePureHdr.FindStringSubmatch(l.rest)
			if m == nil {
				return fmt.Errorf("%s: bad ghost header %q", l.where, l.rest)
			}
			gd := &GhostDef{Name: m[1], Pkg: pkgPath, ResType: strings.TrimSpace(m[3]), Fn: l.kw == "ghostfn", Line: l.where}
			_, gd.ArgType = splitParams(m[2])
			gd.NArgs = len(gd.ArgType)
			cs.Ghosts[gd.Name] = gd
			cur, curLoop, curParam = nil, nil, nil
		case "lemma":
			// lemma name(params) [induct v upto expr] [trigger expr] = body
			m := rePureHdr.FindStringSubmatch(l.rest)
			if m == nil || m[4] == "" {
				return fmt.Errorf("%s: lemma syntax: lemma name(params) [induct v upto e] [trigger e] = expr", l.where)
			}
			c, err := mkClause(m[4], l.where)
			if err != nil {
				return err
			}
			pd := &PureDef{Name: m[1], Pkg: pkgPath, ParamsTxt: m[2], Body: c, Line: l.where}
			pd.ParamName, pd.ParamType = splitParams(m[2])
			mid := strings.TrimSpace(m[3])
			if i := strings.Index(mid, "trigger "); i >= 0 {
				for _, part := range splitTop(mid[i+8:], ",") {
					tc, err := mkClause(part, l.where)
					if err != nil {
						return err
					}
					pd.Triggers = append(pd.Triggers, tc)
				}
				mid = strings.TrimSpace(mid[:i])
			}
			if strings.HasPrefix(mid, "induct ") {
				parts := strings.SplitN(strings.TrimSpace(mid[7:]), " upto ", 2)
				if len(parts) != 2 {
					return fmt.Errorf("%s: lemma induction syntax: induct v upto expr", l.where)
				}
				pd.InductVar = strings.TrimSpace(parts[0])
				ic, err := mkClause(parts[1], l.where)
				if err != nil {
					return err
				}
				pd.InductUpto = ic
			}
			cs.Lemmas[pd.Name] = pd
			cur, curLoop, curParam = nil, nil, nil
		case "axiom":
			j := strings.Index(l.rest, ":")
			if j < 0 {
				return fmt.Errorf("%s: axiom needs name:", l.where)
			}
			c, err := mkClause(l.rest[j+1:], l.where)
			if err != nil {
				return err
			}
			cs.Axioms = append(cs.Axioms, &AxiomDef{Name: strings.TrimSpace(l.rest[:j]), Pkg: pkgPath, Body: c, Lemma: l.kw == "lemma"})
			cur, curLoop, curParam = nil, nil, nil
		}
	}
	return nil
}

var _ = token.NoPos

// closingQuote returns the index of the first double quote in s that is not escaped by a backslash, or -1.
func closingQuote(s string) int {
	for i := 0; i < len(s); i++ {
		if s[i] == '\\' {
			i++
			continue
		}
		if s[i] == '"' {
			return i
		}
	}
	return -1
}
