package main

import (
	"encoding/json"
	"fmt"
	"go/ast"
	"go/token"
	"go/types"
	"os"
	"path/filepath"
	"sort"
)

// Renamed locals. The contracts name parameters and local variables of the functions they annotate. A commit that only
// renames such a variable must not turn the contracts into noise. lib/locals.json records, for every function under
// contract, the declared variables in source order (name and type) as they were when the contracts were written
// ("govc locals" regenerates it). When the current function has the same number of declarations with the same types in
// the same order, a recorded name that is gone is read as the variable that now stands at its position; otherwise (a
// variable added, removed or retyped) nothing is mapped and a clause naming a missing identifier is a failed obligation.

type localDecl struct {
	Name string `json:"name"`
	Type string `json:"type"`
	obj  *types.Var
}

// funcLocals lists the variables declared by a function (receiver, parameters, results, body, nested literals) in
// source order.
func funcLocals(decl *ast.FuncDecl, info *types.Info) []localDecl {
	var out []localDecl
	ast.Inspect(decl, func(n ast.Node) bool {
		id, ok := n.(*ast.Ident)
		if !ok || id.Name == "_" {
			return true
		}
		v, ok := info.Defs[id].(*types.Var)
		if !ok || v.IsField() {
			return true
		}
		out = append(out, localDecl{Name: id.Name, Type: types.TypeString(v.Type(), func(p *types.Package) string { return p.Name() }), obj: v})
		return true
	})
	// type-switch clause variables are implicit objects without a defining identifier
	return out
}

func localsFile() string { return filepath.Join(verifDir(), "lib", "locals.json") }

func cmdLocals() int {
	prog, err := loadProgram(repoDir())
	if err != nil {
		fmt.Fprintln(os.Stderr, "load:", err)
		return 2
	}
	table := map[string][]localDecl{}
	var keys []string
	for key, fc := range prog.contracts.Funcs {
		if fc.Extern {
			continue
		}
		fn := prog.funcByKey[key]
		if fn == nil {
			continue
		}
		decl := prog.funcDecls[fn]
		pkg := prog.funcPkg[fn]
		if decl == nil || pkg == nil {
			continue
		}
		table[key] = funcLocals(decl, pkg.TypesInfo)
		keys = append(keys, key)
	}
	sort.Strings(keys)
	b, _ := json.MarshalIndent(table, "", " ")
	if err := os.WriteFile(localsFile(), append(b, '\n'), 0o644); err != nil {
		fmt.Fprintln(os.Stderr, err)
		return 2
	}
	fmt.Printf("%d functions written to %s\n", len(keys), localsFile())
	return 0
}

var recordedLocals map[string][]localDecl

func loadRecordedLocals() map[string][]localDecl {
	if recordedLocals != nil {
		return recordedLocals
	}
	recordedLocals = map[string][]localDecl{}
	if data, err := os.ReadFile(localsFile()); err == nil {
		json.Unmarshal(data, &recordedLocals)
	}
	return recordedLocals
}

// setupRenames fills ex.renamed: recorded name -> the current variables that stand where a variable of that name stood.
func (ex *Exec) setupRenames(key string, decl *ast.FuncDecl, info *types.Info) {
	rec := loadRecordedLocals()[key]
	if len(rec) == 0 {
		return
	}
	cur := funcLocals(decl, info)
	if len(cur) != len(rec) {
		return
	}
	for i := range rec {
		if rec[i].Type != cur[i].Type {
			return
		}
	}
	for i := range rec {
		if rec[i].Name != cur[i].Name {
			if ex.renamed == nil {
				ex.renamed = map[string][]*types.Var{}
				ex.renamedObj = map[*types.Var]string{}
			}
			ex.renamed[rec[i].Name] = append(ex.renamed[rec[i].Name], cur[i].obj)
			ex.renamedObj[cur[i].obj] = rec[i].Name
			ex.warnings[fmt.Sprintf("%s: the contract's %q is read as the renamed variable %q (same position and type)", key, rec[i].Name, cur[i].Name)] = true
		}
	}
}

// renamedVar returns the renamed variable that a contract identifier denotes at a source position, if any: the innermost
// variable recorded under that name whose scope contains the position.
func (ex *Exec) renamedVar(name string, pos token.Pos) *types.Var {
	var best *types.Var
	for _, v := range ex.renamed[name] {
		sc := v.Parent()
		if sc == nil {
			continue
		}
		if pos != token.NoPos && !(sc.Contains(pos) || sc.Pos() == token.NoPos) {
			continue
		}
		if best == nil || (best.Parent() != nil && best.Parent().Contains(sc.Pos())) {
			best = v
		}
	}
	return best
}

// withOriginalNames prints a node with renamed variables shown under their recorded names (for matching call-site and
// statement texts of the contracts).
func (ex *Exec) withOriginalNames(n ast.Node, print func() string) string {
	if len(ex.renamedObj) == 0 {
		return print()
	}
	type saved struct {
		id   *ast.Ident
		name string
	}
	var ss []saved
	ast.Inspect(n, func(x ast.Node) bool {
		id, ok := x.(*ast.Ident)
		if !ok {
			return true
		}
		var obj types.Object = ex.info().Uses[id]
		if obj == nil {
			obj = ex.info().Defs[id]
		}
		if v, ok := obj.(*types.Var); ok {
			if orig, ok := ex.renamedObj[v]; ok {
				ss = append(ss, saved{id, id.Name})
				id.Name = orig
			}
		}
		return true
	})
	out := print()
	for _, s := range ss {
		s.id.Name = s.name
	}
	return out
}
