package main

import (
	"fmt"
	"math/big"
	"strings"
)

// Sort of an SMT term (its SMT-LIB spelling).
type Sort string

const (
	SInt   Sort = "Int"
	SBool  Sort = "Bool"
	SSlice Sort = "Slice"
	SArrII Sort = "(Array Int Int)"
	SArrIB Sort = "(Array Int Bool)"
	SArrIS Sort = "(Array Int Slice)"
)

func (s Sort) String() string { return string(s) }

func arrSortOf(elem Sort) Sort { return Sort("(Array Int " + string(elem) + ")") }

func elemSortOf(arr Sort) Sort {
	a := string(arr)
	if !strings.HasPrefix(a, "(Array Int ") {
		panic("elemSortOf " + a)
	}
	return Sort(a[len("(Array Int ") : len(a)-1])
}

// T is an SMT term. Terms are interned by their printed form.
type T struct {
	Op  string
	A   []*T
	S   Sort
	str string
}

var interned = map[string]*T{}

func mk(op string, s Sort, args ...*T) *T {
	var sb strings.Builder
	if len(args) == 0 {
		sb.WriteString(op)
	} else {
		sb.WriteByte('(')
		sb.WriteString(op)
		for _, a := range args {
			if a == nil {
				panic("nil term arg in " + op)
			}
			sb.WriteByte(' ')
			sb.WriteString(a.str)
		}
		sb.WriteByte(')')
	}
	k := sb.String()
	if t, ok := interned[k]; ok {
		if t.S != s {
			panic("term " + k + " used with sorts " + string(t.S) + " and " + string(s))
		}
		return t
	}
	t := &T{Op: op, A: args, S: s, str: k}
	interned[k] = t
	return t
}

func (t *T) String() string { return t.str }

var (
	True  = mk("true", SBool)
	False = mk("false", SBool)
)

func I(n int64) *T {
	if n < 0 {
		return mk("-", SInt, mk(fmt.Sprint(-n), SInt))
	}
	return mk(fmt.Sprint(n), SInt)
}

func IBig(n *big.Int) *T {
	if n.Sign() < 0 {
		return mk("-", SInt, mk(new(big.Int).Neg(n).String(), SInt))
	}
	return mk(n.String(), SInt)
}

func (t *T) isNum() (*big.Int, bool) {
	if len(t.A) == 0 && len(t.Op) > 0 && t.Op[0] >= '0' && t.Op[0] <= '9' {
		n, ok := new(big.Int).SetString(t.Op, 10)
		return n, ok
	}
	if t.Op == "-" && len(t.A) == 1 {
		if n, ok := t.A[0].isNum(); ok {
			return new(big.Int).Neg(n), true
		}
	}
	return nil, false
}

func Const(name string, s Sort) *T { return mk(name, s) }

func Add(a, b *T) *T {
	x, ok1 := a.isNum()
	y, ok2 := b.isNum()
	if ok1 && ok2 {
		return IBig(new(big.Int).Add(x, y))
	}
	if ok1 && x.Sign() == 0 {
		return b
	}
	if ok2 && y.Sign() == 0 {
		return a
	}
	// (a + c1) + c2 => a + (c1+c2)
	if ok2 && a.Op == "+" && len(a.A) == 2 {
		if c1, ok := a.A[1].isNum(); ok {
			return Add(a.A[0], IBig(new(big.Int).Add(c1, y)))
		}
	}
	return mk("+", SInt, a, b)
}

func Sub(a, b *T) *T {
	x, ok1 := a.isNum()
	y, ok2 := b.isNum()
	if ok1 && ok2 {
		return IBig(new(big.Int).Sub(x, y))
	}
	if ok2 && y.Sign() == 0 {
		return a
	}
	if ok2 {
		return Add(a, IBig(new(big.Int).Neg(y)))
	}
	if a == b {
		return I(0)
	}
	return mk("-", SInt, a, b)
}

func Mul(a, b *T) *T {
	x, ok1 := a.isNum()
	y, ok2 := b.isNum()
	if ok1 && ok2 {
		return IBig(new(big.Int).Mul(x, y))
	}
	if ok1 && x.Cmp(big.NewInt(1)) == 0 {
		return b
	}
	if ok2 && y.Cmp(big.NewInt(1)) == 0 {
		return a
	}
	if (ok1 && x.Sign() == 0) || (ok2 && y.Sign() == 0) {
		return I(0)
	}
	return mk("*", SInt, a, b)
}

// Div and Mod are the SMT-LIB (Euclidean) operators.
func Div(a, b *T) *T {
	x, ok1 := a.isNum()
	y, ok2 := b.isNum()
	if ok1 && ok2 && x.Sign() >= 0 && y.Sign() > 0 {
		return IBig(new(big.Int).Div(x, y))
	}
	return mk("div", SInt, a, b)
}

func Mod(a, b *T) *T {
	x, ok1 := a.isNum()
	y, ok2 := b.isNum()
	if ok1 && ok2 && x.Sign() >= 0 && y.Sign() > 0 {
		return IBig(new(big.Int).Mod(x, y))
	}
	return mk("mod", SInt, a, b)
}

func Neg(a *T) *T { return Sub(I(0), a) }

func cmpFold(op string, a, b *T) (*T, bool) {
	x, ok1 := a.isNum()
	y, ok2 := b.isNum()
	if !(ok1 && ok2) {
		return nil, false
	}
	c := x.Cmp(y)
	var r bool
	switch op {
	case "<":
		r = c < 0
	case "<=":
		r = c <= 0
	case "=":
		r = c == 0
	}
	if r {
		return True, true
	}
	return False, true
}

func Lt(a, b *T) *T {
	if r, ok := cmpFold("<", a, b); ok {
		return r
	}
	return mk("<", SBool, a, b)
}
func Le(a, b *T) *T {
	if r, ok := cmpFold("<=", a, b); ok {
		return r
	}
	if a == b {
		return True
	}
	return mk("<=", SBool, a, b)
}
func Gt(a, b *T) *T { return Lt(b, a) }
func Ge(a, b *T) *T { return Le(b, a) }

func Eq(a, b *T) *T {
	if a == b {
		return True
	}
	if a.S != b.S {
		panic(fmt.Sprintf("Eq sort mismatch: %s : %s vs %s : %s", a, a.S, b, b.S))
	}
	if a.S == SInt {
		if r, ok := cmpFold("=", a, b); ok {
			return r
		}
	}
	if a.S == SBool {
		if b == True {
			return a
		}
		if a == True {
			return b
		}
		if b == False {
			return Not(a)
		}
		if a == False {
			return Not(b)
		}
	}
	return mk("=", SBool, a, b)
}
func Ne(a, b *T) *T { return Not(Eq(a, b)) }

func Not(a *T) *T {
	if a == True {
		return False
	}
	if a == False {
		return True
	}
	if a.Op == "not" {
		return a.A[0]
	}
	return mk("not", SBool, a)
}

func And(ts ...*T) *T {
	var out []*T
	for _, t := range ts {
		if t == True {
			continue
		}
		if t == False {
			return False
		}
		if t.Op == "and" {
			out = append(out, t.A...)
			continue
		}
		out = append(out, t)
	}
	switch len(out) {
	case 0:
		return True
	case 1:
		return out[0]
	}
	return mk("and", SBool, out...)
}

func Or(ts ...*T) *T {
	var out []*T
	for _, t := range ts {
		if t == False {
			continue
		}
		if t == True {
			return True
		}
		if t.Op == "or" {
			out = append(out, t.A...)
			continue
		}
		out = append(out, t)
	}
	switch len(out) {
	case 0:
		return False
	case 1:
		return out[0]
	}
	return mk("or", SBool, out...)
}

func Imp(a, b *T) *T {
	if a == True {
		return b
	}
	if a == False || b == True {
		return True
	}
	if b == False {
		return Not(a)
	}
	return mk("=>", SBool, a, b)
}

func Ite(c, a, b *T) *T {
	if c == True {
		return a
	}
	if c == False {
		return b
	}
	if a == b {
		return a
	}
	if a.S != b.S {
		panic(fmt.Sprintf("Ite sort mismatch %s:%s vs %s:%s", a, a.S, b, b.S))
	}
	if a.S == SBool {
		if a == True && b == False {
			return c
		}
		if a == False && b == True {
			return Not(c)
		}
	}
	return mk("ite", a.S, c, a, b)
}

func App(fn string, s Sort, args ...*T) *T { return mk(fn, s, args...) }

func Select(arr, idx *T) *T {
	// select(store(a,i,v), i) = v
	if arr.Op == "store" && arr.A[1] == idx {
		return arr.A[2]
	}
	return mk("select", elemSortOf(arr.S), arr, idx)
}
func Store(arr, idx, v *T) *T { return mk("store", arr.S, arr, idx, v) }

// Slice constructors/accessors.
func MkSlice(base, off, ln, cp *T) *T { return mk("mk-slice", SSlice, base, off, ln, cp) }

func sliceAcc(name string, idx int, s *T) *T {
	if s.Op == "mk-slice" {
		return s.A[idx]
	}
	if s.Op == "ite" {
		return Ite(s.A[0], sliceAcc(name, idx, s.A[1]), sliceAcc(name, idx, s.A[2]))
	}
	return mk(name, SInt, s)
}
func SBase(s *T) *T { return sliceAcc("sbase", 0, s) }
func SOff(s *T) *T  { return sliceAcc("soff", 1, s) }
func SLen(s *T) *T  { return sliceAcc("slen", 2, s) }
func SCap(s *T) *T  { return sliceAcc("scap", 3, s) }

var NilSlice = MkSlice(I(0), I(0), I(0), I(0))

// Quantifiers. vars are Int-sorted unless written "name:Sort". Each pattern is one (single-term) trigger.
func Forall(vars []string, body *T, pats ...*T) *T {
	var ps []string
	for _, p := range pats {
		ps = append(ps, p.str)
	}
	return quant("forall", vars, body, ps)
}

// ForallMulti uses all given terms together as one multi-pattern.
func ForallMulti(vars []string, body *T, pats []*T) *T {
	var ps []string
	for _, p := range pats {
		ps = append(ps, p.str)
	}
	return quant("forall", vars, body, []string{strings.Join(ps, " ")})
}

func Exists(vars []string, body *T) *T {
	return quant("exists", vars, body, nil)
}

func quant(q string, vars []string, body *T, pats []string) *T {
	if body == True || body == False {
		return body
	}
	var sb strings.Builder
	sb.WriteString("(")
	for _, v := range vars {
		if i := strings.Index(v, ":"); i > 0 {
			fmt.Fprintf(&sb, "(%s %s)", v[:i], v[i+1:])
		} else {
			fmt.Fprintf(&sb, "(%s Int)", v)
		}
	}
	sb.WriteString(")")
	b := body.str
	if len(pats) > 0 {
		var ps strings.Builder
		ps.WriteString("(! ")
		ps.WriteString(body.str)
		for _, p := range pats {
			ps.WriteString(" :pattern (")
			ps.WriteString(p)
			ps.WriteString(")")
		}
		ps.WriteString(")")
		b = ps.String()
	}
	// opaque leaf carrying the text
	return mk("("+q+" "+sb.String()+" "+b+")", SBool)
}

// pow2 returns 2^k as a term.
func pow2(k uint) *T { return IBig(new(big.Int).Lsh(big.NewInt(1), k)) }

// subst replaces leaves by name in a term (used for spec functions with bound vars).
func subst(t *T, m map[string]*T) *T {
	if len(t.A) == 0 {
		if r, ok := m[t.Op]; ok {
			return r
		}
		return t
	}
	args := make([]*T, len(t.A))
	ch := false
	for i, a := range t.A {
		args[i] = subst(a, m)
		if args[i] != a {
			ch = true
		}
	}
	if !ch {
		return t
	}
	return mk(t.Op, t.S, args...)
}
