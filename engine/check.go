package main

import (
	"crypto/sha256"
	"encoding/json"
	"flag"
	"fmt"
	"os"
	"path/filepath"
	"regexp"
	"runtime"
	"sort"
	"strings"
	"sync"
	"syscall"
	"time"
)

// Selector picks obligations of a function for a property.
type Selector struct {
	Func  string `json:"func"`            // short key, e.g. "ech.Conn.Read"
	Kinds string `json:"kinds,omitempty"` // letters; empty = all
	Match string `json:"match,omitempty"` // regexp on the obligation name
	Skip  string `json:"skip,omitempty"`  // regexp: obligations excluded
}

type BoundedCheck struct {
	Name  string `json:"name"`
	Cmd   string `json:"cmd"`
	Bound string `json:"bound"`
	Tier  string `json:"tier,omitempty"` // "thorough" (default) or "quick"
}

type PropDef struct {
	ID         string         `json:"id"`
	Title      string         `json:"title"`
	Level      string         `json:"level"` // proof | other
	Select     []Selector     `json:"select"`
	NotCovered []string       `json:"not_covered"`
	Assumes    []string       `json:"assumes"`
	Replay     string         `json:"replay,omitempty"`
	Bounded    []BoundedCheck `json:"bounded,omitempty"`
	Lemmas     []string       `json:"lemmas,omitempty"`
	Mutants    string         `json:"mutants,omitempty"`
}

type knownFinding struct {
	kind string // known | fixed
	prop string
	obl  string
	text string
}

func loadKnownFindings() []knownFinding {
	data, err := os.ReadFile(filepath.Join(verifDir(), "KNOWN_FINDINGS.txt"))
	if err != nil {
		return nil
	}
	var out []knownFinding
	for _, ln := range strings.Split(string(data), "\n") {
		ln = strings.TrimSpace(ln)
		if ln == "" || strings.HasPrefix(ln, "#") {
			continue
		}
		var kf knownFinding
		switch {
		case strings.HasPrefix(ln, "known:"):
			kf.kind = "known"
			ln = strings.TrimSpace(ln[6:])
		case strings.HasPrefix(ln, "fixed:"):
			kf.kind = "fixed"
			ln = strings.TrimSpace(ln[6:])
		default:
			continue
		}
		for _, f := range strings.Fields(ln) {
			if strings.HasPrefix(f, "property=") {
				kf.prop = f[9:]
			}
			if strings.HasPrefix(f, "obligation=") {
				kf.obl = f[11:]
			}
		}
		kf.text = ln
		out = append(out, kf)
	}
	return out
}

func (s Selector) matches(fn string, o *Obl) bool {
	if s.Func != "" && expandKey(s.Func) != fn && !strings.HasPrefix(fn, expandKey(s.Func)+"{") {
		return false
	}
	if s.Kinds != "" && !strings.Contains(s.Kinds, o.Kind) {
		return false
	}
	if s.Match != "" {
		if ok, _ := regexp.MatchString(s.Match, o.Name); !ok {
			return false
		}
	}
	if s.Skip != "" {
		if ok, _ := regexp.MatchString(s.Skip, o.Name); ok {
			return false
		}
	}
	return true
}

func cmdCheck(args []string) int {
	fs := flag.NewFlagSet("check", flag.ExitOnError)
	tier := fs.String("tier", "", "quick|thorough")
	fs.Parse(reorderArgs(args))
	if fs.NArg() != 1 {
		fmt.Fprintln(os.Stderr, "usage: govc check <property> [--tier quick|thorough]")
		return 2
	}
	id := fs.Arg(0)
	if *tier == "" {
		*tier = os.Getenv("VERIF_TIER")
	}
	if *tier == "" {
		*tier = "quick"
	}
	seed := 0
	fmt.Sscanf(os.Getenv("VERIF_SEED"), "%d", &seed)
	t0 := time.Now()
	var def PropDef
	data, err := os.ReadFile(filepath.Join(verifDir(), "props", id+".json"))
	if err != nil {
		fmt.Println("UNDECIDED property=" + id + " reason=no-property-definition " + err.Error())
		return 2
	}
	if err := json.Unmarshal(data, &def); err != nil {
		fmt.Println("UNDECIDED property=" + id + " reason=bad-property-definition " + err.Error())
		return 2
	}
	prog, err := loadProgram(repoDir())
	if err != nil {
		// the tree does not build: that is not a property violation
		fmt.Println("UNDECIDED property=" + id + " reason=load-failed " + strings.ReplaceAll(err.Error(), "\n", " "))
		writeEvidence(id, *tier, seed, &def, nil, nil, time.Since(t0).Seconds(), 0, []string{"load failed: " + err.Error()}, nil)
		return 2
	}
	// functions of the property
	var fnKeys []string
	seen := map[string]bool{}
	for _, s := range def.Select {
		k := expandKey(s.Func)
		if !seen[k] {
			seen[k] = true
			fnKeys = append(fnKeys, k)
		}
	}
	var results []*FuncResult
	var undecided []string
	for _, k := range fnKeys {
		for _, r := range verifyAll(prog, k) {
			results = append(results, r)
			for _, e := range r.Errors {
				undecided = append(undecided, "engine: "+e)
			}
			for _, d := range r.Drift {
				undecided = append(undecided, "contract-drift: "+d)
			}
		}
	}
	for _, ln := range def.Lemmas {
		r := verifyLemma(prog, ln)
		results = append(results, r)
		for _, e := range r.Errors {
			undecided = append(undecided, "engine: "+e)
		}
		for _, d := range r.Drift {
			undecided = append(undecided, "contract-drift: "+d)
		}
	}
	if prog.contracts.NAssume > 0 {
		undecided = append(undecided, fmt.Sprintf("contract files contain %d assume clauses", prog.contracts.NAssume))
	}
	filter := func(r *FuncResult) func(o *Obl) bool {
		return func(o *Obl) bool {
			if strings.HasPrefix(r.Name, "lemma:") {
				return true
			}
			for _, s := range def.Select {
				if s.matches(r.Name, o) {
					return true
				}
			}
			return false
		}
	}
	// keep the obligations of this property. An unselected obligation that precedes a selected one in the same function
	// is kept as a supporting obligation: the selected ones assume it (assume-after-assert), so it is solved as well and,
	// should it fail, the selected obligations after it are re-solved without its fact.
	for _, r := range results {
		f := filter(r)
		lastSel := -1
		for i, o := range r.Obls {
			if f(o) {
				lastSel = i
			}
		}
		var kept []*Obl
		for i, o := range r.Obls {
			if o.LemmaStep {
				// a proof step: solved so that what follows may rest on it, never reported itself; if it fails, the selected
				// obligations after it are re-solved without its fact
				if i < lastSel && o.FactIdx >= 0 {
					o.Support = true
					kept = append(kept, o)
				}
				continue
			}
			if f(o) {
				kept = append(kept, o)
			} else if i < lastSel && o.FactIdx >= 0 {
				o.Support = true
				// an obligation the property definition names as outside its reach ("skip") is not attempted: it counts
				// as a failed supporting obligation, so nothing selected may rest on it
				for _, s := range def.Select {
					if s.Skip != "" && (s.Func == "" || expandKey(s.Func) == r.Name || strings.HasPrefix(r.Name, expandKey(s.Func)+"{")) {
						if ok, _ := regexp.MatchString(s.Skip, o.Name); ok {
							o.Result = "not-attempted"
						}
					}
				}
				kept = append(kept, o)
			}
		}
		r.Obls = kept
	}
	tGen := time.Since(t0).Seconds()
	work := filepath.Join(verifDir(), "work", id)
	if st, err := os.Stat("/dev/shm"); err == nil && st.IsDir() {
		// remove work directories left behind by runs that were killed
		if ds, err := filepath.Glob("/dev/shm/govc-*-*"); err == nil {
			for _, d := range ds {
				var pid int
				if _, err := fmt.Sscanf(filepath.Base(d), "govc-%d-", &pid); err == nil && pid > 0 {
					if err := syscall.Kill(pid, 0); err != nil {
						os.RemoveAll(d)
					}
				}
			}
		}
		work = filepath.Join("/dev/shm", fmt.Sprintf("govc-%d-%s", os.Getpid(), id))
		defer os.RemoveAll(work)
	}
	os.RemoveAll(work)
	quickSec, fullSec := 12, 40
	// solver timeouts are wall-clock: on an oversubscribed machine (other checks running at the same time) they are stretched
	// in proportion to the load, so that an obligation that needs two CPU seconds is not reported as failed
	if lf := loadFactor(); lf > 1 {
		quickSec = int(float64(quickSec) * lf)
		fullSec = int(float64(fullSec) * (1 + (lf-1)/2))
	}
	all := false
	if *tier == "thorough" {
		quickSec, fullSec, all = 60, 60, true
	}
	solveAll(results, work, quickSec, fullSec, all, 10, nil)
	// failed supporting obligations: re-solve the obligations that assumed them, without their facts. Supporting obligations
	// after a failed one are re-solved too (one of them may have been proved only from the failed one's fact and would
	// otherwise hand the same fact on to the selected obligations), until no further supporting obligation fails.
	nSupport, nSupportFailed, nResolved := 0, 0, 0
	for _, r := range results {
		excl := map[int]bool{}
		var firstFailed *Obl
		for _, o := range r.Obls {
			if o.Support {
				nSupport++
			}
		}
		redone := map[*Obl]int{} // size of the exclusion set the obligation was last solved with
		for round := 0; round < 50; round++ {
			nExcl := len(excl)
			firstIdx := -1
			for i, o := range r.Obls {
				if o.Support && o.Result != "unsat" && !excl[o.FactIdx] {
					excl[o.FactIdx] = true
					nSupportFailed++
					if os.Getenv("GOVC_DEBUG") != "" {
						fmt.Printf("support-failed: %s result=%s\n", o.Name, o.Result)
					}
				}
				if o.Support && o.Result != "unsat" && firstIdx < 0 {
					firstIdx = i
					firstFailed = o
				}
			}
			if firstIdx < 0 || (round > 0 && len(excl) == nExcl) {
				break
			}
			var redo []*Obl
			for _, o := range r.Obls[firstIdx+1:] {
				if o.Result == "unsat" && redone[o] < len(excl) {
					redo = append(redo, o)
				}
			}
			if len(redo) == 0 {
				break
			}
			for _, o := range redo {
				o.Excl = excl
				o.Result = ""
				redone[o] = len(excl)
			}
			nResolved += len(redo)
			saved := r.Obls
			r.Obls = redo
			solveAll([]*FuncResult{r}, work, quickSec, fullSec, all, 10, nil)
			r.Obls = saved
			for _, o := range redo {
				if o.Result != "unsat" && !o.Support {
					o.DependsOn = firstFailed.Name
				}
			}
		}
	}
	// supporting obligations are not part of the property: drop them from the report
	for _, r := range results {
		var kept []*Obl
		for _, o := range r.Obls {
			if !o.Support {
				kept = append(kept, o)
			}
		}
		r.Obls = kept
	}
	tSolve := time.Since(t0).Seconds()
	// vacuity: the facts of each function must be satisfiable at entry (cover)
	covers := runCovers(results, work)
	for _, c := range covers {
		if c.Result == "unsat" {
			undecided = append(undecided, "vacuous: "+c.Name)
		}
	}
	total, discharged := 0, 0
	var failed []*Obl
	backends := map[string]int{}
	solverSecs := 0.0
	for _, r := range results {
		for _, o := range r.Obls {
			if o.Result != "unsat" && isKnownFailing(o.Name) {
				// a listed known finding: reported as KNOWN-FINDING and under coverage.known_findings, not part of the counts
				failed = append(failed, o)
				continue
			}
			total++
			solverSecs += o.Secs
			if o.Result == "unsat" {
				discharged++
				backends[o.Backend]++
			} else {
				failed = append(failed, o)
			}
		}
	}
	if total == 0 {
		undecided = append(undecided, "no obligations generated")
	}
	known := loadKnownFindings()
	var knownSeen []map[string]any
	violations := 0
	var lines []string
	os.MkdirAll(replayDir(id), 0o755)
	unreliable := map[string]bool{}
	for _, r := range results {
		if len(r.Errors) > 0 || len(r.Drift) > 0 {
			unreliable[r.Name] = true
		}
	}
	for _, o := range failed {
		if unreliable[expandKey(strings.SplitN(o.Func, "/", 2)[0])] || unreliable[o.FuncKey] {
			continue
		}
		if o.Result == "disagree" || o.Result == "error" {
			undecided = append(undecided, "solver "+o.Result+" on "+o.Name)
			continue
		}
		isKnown := false
		for _, k := range known {
			if k.kind == "known" && k.prop == id && k.obl == o.Name {
				lines = append(lines, fmt.Sprintf("KNOWN-FINDING: property=%s %s", id, strings.TrimSpace(strings.TrimPrefix(k.text, "property="+id))))
				knownSeen = append(knownSeen, map[string]any{"obligation": o.Name, "result": o.Result, "what": strings.TrimSpace(strings.TrimPrefix(k.text, "property="+id))})
				isKnown = true
			}
		}
		if isKnown {
			continue
		}
		violations++
		path := writeReplayFile(id, o, results)
		suffix := " no-failing-input-found"
		if rp := tryReplay(id, &def, o, path); rp {
			suffix = ""
		}
		dep := ""
		if o.DependsOn != "" {
			dep = " needs-failed-supporting-obligation=" + o.DependsOn
		}
		lines = append(lines, fmt.Sprintf("VIOLATION property=%s replay=%s obligation=%s result=%s%s%s", id, path, o.Name, o.Result, dep, suffix))
	}
	// bounded stand-ins (never counted as discharged)
	var boundedOut []map[string]any
	for _, b := range def.Bounded {
		bt := b.Tier
		if bt == "" {
			bt = "thorough"
		}
		if bt == "thorough" && *tier != "thorough" {
			continue
		}
		ok, out, secs := runBounded(b)
		boundedOut = append(boundedOut, map[string]any{"name": b.Name, "bound": b.Bound, "passed": ok, "wall_s": secs, "label": "bounded (not counted as proved)"})
		if !ok {
			violations++
			path := filepath.Join(replayDir(id), "bounded-"+sanitize(b.Name)+".txt")
			os.WriteFile(path, []byte(out), 0o644)
			lines = append(lines, fmt.Sprintf("VIOLATION property=%s replay=%s bounded=%s", id, path, b.Name))
		}
	}
	wall := time.Since(t0).Seconds()
	writeEvidence(id, *tier, seed, &def, results, covers, wall, violations, undecided, map[string]any{
		"total": total, "discharged": discharged, "backends": backends, "solver_s": solverSecs, "bounded": boundedOut,
		"support": nSupport, "support_failed": nSupportFailed, "resolved_without_support": nResolved, "known_findings": knownSeen,
	})
	for _, l := range lines {
		fmt.Println(l)
	}
	for _, r := range results {
		for _, o := range r.Obls {
			if o.Secs > 2 || o.Backend != "z3-new" {
				fmt.Printf("slow: %.1fs %s %s %s\n", o.Secs, o.Backend, o.Result, o.Name)
			}
		}
	}
	fmt.Printf("phases: load+vcgen=%.1fs solve=%.1fs rest=%.1fs\n", tGen, tSolve-tGen, time.Since(t0).Seconds()-tSolve)
	fmt.Printf("property=%s tier=%s functions=%d obligations=%d discharged=%d support=%d support-failed=%d wall=%.1fs\n", id, *tier, len(results), total, discharged, nSupport, nSupportFailed, wall)
	if len(undecided) > 0 {
		for _, u := range undecided {
			fmt.Println("UNDECIDED property=" + id + " reason=" + u)
		}
		if violations == 0 {
			return 2
		}
	}
	if violations > 0 {
		return 1
	}
	return 0
}

// reorderArgs moves flags before positional arguments.
func reorderArgs(args []string) []string {
	var flags, pos []string
	for i := 0; i < len(args); i++ {
		a := args[i]
		if strings.HasPrefix(a, "-") {
			flags = append(flags, a)
			if !strings.Contains(a, "=") && i+1 < len(args) && !strings.HasPrefix(args[i+1], "-") {
				flags = append(flags, args[i+1])
				i++
			}
		} else {
			pos = append(pos, a)
		}
	}
	return append(flags, pos...)
}

type coverResult struct {
	Name   string
	Result string
}

// runCovers checks that the assumptions of each function are satisfiable (guards against vacuous proofs).
func runCovers(results []*FuncResult, work string) []coverResult {
	out := make([]coverResult, 0, len(results))
	var mu sync.Mutex
	var wg sync.WaitGroup
	for _, r := range results {
		if len(r.Obls) == 0 {
			continue
		}
		r := r
		wg.Add(1)
		go func() {
			defer wg.Done()
			// all facts of the function together with "some exit is reached"
			last := r.Obls[len(r.Obls)-1]
			var sb strings.Builder
			sb.WriteString(prelude)
			for _, d := range r.Decls {
				sb.WriteString(d + "\n")
			}
			for _, f := range r.Facts[:last.NFacts] {
				sb.WriteString("(assert " + f.String() + ")\n")
			}
			sb.WriteString("(assert " + last.PC.String() + ")\n(check-sat)\n")
			h := sha256.Sum256([]byte("cover:" + r.Name))
			file := filepath.Join(work, fmt.Sprintf("cover-%x.smt2", h[:6]))
			os.WriteFile(file, []byte(sb.String()), 0o644)
			res := runSolver(solvers[0], file, 3)
			if res.result != "unsat" {
				// the declarations and their axioms alone (struct constructors, spec functions, library facts) must be
				// consistent: an inconsistency there makes every obligation of the function provable
				var ab strings.Builder
				ab.WriteString(prelude)
				for _, d := range r.Decls {
					ab.WriteString(d + "\n")
				}
				ab.WriteString("(check-sat)\n")
				afile := filepath.Join(work, fmt.Sprintf("axioms-%x.smt2", h[:6]))
				os.WriteFile(afile, []byte(ab.String()), 0o644)
				if ar, _ := race(afile, []int{0, 1}, 4, false); ar.result == "unsat" {
					res = ar
					sb.Reset()
					sb.WriteString(ab.String())
				}
			}
			if res.result == "unsat" {
				os.MkdirAll(filepath.Join(verifDir(), "work", "cover-unsat"), 0o755)
				os.WriteFile(filepath.Join(verifDir(), "work", "cover-unsat", filepath.Base(file)), []byte(sb.String()), 0o644)
			}
			mu.Lock()
			out = append(out, coverResult{"cover[" + r.Name + "]", res.result})
			mu.Unlock()
		}()
	}
	wg.Wait()
	sort.Slice(out, func(i, j int) bool { return out[i].Name < out[j].Name })
	return out
}

// replayDir: where violation records go: /verif/replays/<id>, or a scratch directory for self-test runs on patched copies.
func replayDir(id string) string {
	if os.Getenv("VERIF_NOEVIDENCE") != "" {
		return filepath.Join(os.TempDir(), "govc-selftest-replays", id)
	}
	return filepath.Join(verifDir(), "replays", id)
}

func writeReplayFile(id string, o *Obl, results []*FuncResult) string {
	h := sha256.Sum256([]byte(o.Name))
	os.MkdirAll(replayDir(id), 0o755)
	path := filepath.Join(replayDir(id), fmt.Sprintf("%x.json", h[:6]))
	model := o.Model
	if len(model) > 200000 {
		model = model[:200000]
	}
	if data, err := os.ReadFile(o.File); err == nil {
		qpath := strings.TrimSuffix(path, ".json") + ".smt2"
		os.WriteFile(qpath, data, 0o644)
		o.File = qpath
	}
	rec := map[string]any{
		"property": id, "obligation": o.Name, "position": o.Pos, "result": o.Result, "backend": o.Backend,
		"solver_output": model, "query_file": o.File,
		"note": "obligation generated from the current /repo source that the solvers did not discharge",
	}
	b, _ := json.MarshalIndent(rec, "", " ")
	os.WriteFile(path, b, 0o644)
	return path
}

func runBounded(b BoundedCheck) (bool, string, float64) {
	t0 := time.Now()
	out, err := runShell(b.Cmd, 20*time.Minute)
	return err == nil, out, time.Since(t0).Seconds()
}

func writeEvidence(id, tier string, seed int, def *PropDef, results []*FuncResult, covers []coverResult, wall float64, violations int, undecided []string, sums map[string]any) {
	level := def.Level
	if level == "" {
		level = "proof"
	}
	type fnInfo struct {
		Name        string `json:"name"`
		File        string `json:"file"`
		Obligations int    `json:"obligations"`
		Discharged  int    `json:"discharged"`
	}
	var fns []fnInfo
	var samples []map[string]any
	trusted := map[string]bool{}
	assumptions := map[string]bool{}
	unmodelled := map[string]bool{}
	stores := map[string]bool{}
	for _, r := range results {
		fi := fnInfo{Name: r.Name, File: r.File}
		for _, o := range r.Obls {
			fi.Obligations++
			if o.Result == "unsat" {
				fi.Discharged++
			}
			if len(samples) < 12 || o.Result != "unsat" {
				samples = append(samples, map[string]any{"obligation": o.Name, "at": o.Pos, "result": o.Result, "backend": o.Backend, "solver_s": o.Secs, "facts": o.NFacts})
			}
		}
		fns = append(fns, fi)
		for _, l := range r.LibUsed {
			trusted["library contract: "+l] = true
		}
		for _, a := range r.Assumptions {
			assumptions[a] = true
		}
		for _, u := range r.Unmodelled {
			unmodelled[u] = true
		}
		for _, w := range r.Warnings {
			assumptions["warning: "+w] = true
		}
		for _, s := range r.Stores {
			stores[s] = true
		}
	}
	trusted["govc VC generator (Go typed AST -> SMT-LIB), mathematical integers with overflow obligations, slice/string lengths <= 2^48"] = true
	trusted["SMT solvers z3 5.1.0 (z3-new), z3 4.8.12, cvc5 1.0.3"] = true
	for _, a := range def.Assumes {
		assumptions[a] = true
	}
	for _, n := range def.NotCovered {
		assumptions["not covered: "+n] = true
	}
	cov := map[string]any{
		"obligations": 0, "discharged": 0,
		"checker_cmd":              fmt.Sprintf("/verif/bin/govc check %s --tier %s", id, tier),
		"trusted_base":             keysOf(trusted),
		"functions_under_contract": fns,
		"samples":                  samples,
		"unmodelled":               keysOf(unmodelled),
		"element_stores":           keysOf(stores),
		"undecided":                undecided,
		"explanation":              "every obligation is one SMT query generated from the current /repo source; discharged = answered unsat",
	}
	if sums != nil {
		cov["obligations"] = sums["total"]
		cov["discharged"] = sums["discharged"]
		cov["backends"] = sums["backends"]
		cov["solver_time_s"] = sums["solver_s"]
		if b, ok := sums["bounded"]; ok && b != nil {
			cov["bounded"] = b
		}
		if k, ok := sums["known_findings"].([]map[string]any); ok && len(k) > 0 {
			// failed obligations that the committed KNOWN_FINDINGS.txt lists (genuine, unrepaired defects): reported as
			// KNOWN-FINDING, not counted as discharged, never assumed
			cov["known_findings"] = k
		}
		cov["supporting_obligations"] = map[string]any{"solved": sums["support"], "failed": sums["support_failed"], "selected_resolved_without_failed_support": sums["resolved_without_support"],
			"note": "obligations of the selected functions that are outside the property's selection but assumed by selected obligations after them; a failed one is not reported itself, the selected obligations after it are re-solved without its fact"}
	}
	var cv []map[string]string
	for _, c := range covers {
		cv = append(cv, map[string]string{"cover": c.Name, "result": c.Result})
	}
	cov["covers"] = cv
	ev := map[string]any{
		"property_id": id, "tier": tier, "seed": seed, "level": level,
		"coverage": cov, "assumptions": keysOf(assumptions), "wall_s": wall, "violations": violations,
	}
	if os.Getenv("VERIF_NOEVIDENCE") != "" {
		return
	}
	b, _ := json.MarshalIndent(ev, "", " ")
	os.MkdirAll(filepath.Join(verifDir(), "evidence"), 0o755)
	os.WriteFile(filepath.Join(verifDir(), "evidence", id+".json"), b, 0o644)
}

var _ = sort.Strings

// loadFactor: 1-minute load average divided by the number of CPUs, between 1 and 3.
func loadFactor() float64 {
	data, err := os.ReadFile("/proc/loadavg")
	if err != nil {
		return 1
	}
	var l1 float64
	if _, err := fmt.Sscanf(string(data), "%f", &l1); err != nil {
		return 1
	}
	f := l1 / float64(runtime.NumCPU())
	if f < 1 {
		return 1
	}
	if f > 3 {
		return 3
	}
	return f
}
