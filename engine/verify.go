package main

import (
	"fmt"
	"go/ast"
	"go/printer"
	"go/token"
	"go/types"
	"os"
	"path/filepath"
	"sort"
	"strings"
	"sync"

	"golang.org/x/tools/go/packages"
)

const prelude = `(set-option :produce-models true)
(set-logic ALL)
(declare-datatypes ((Slice 0)) (((mk-slice (sbase Int) (soff Int) (slen Int) (scap Int)))))
(declare-fun memB (Int Int) Int)
(declare-fun memI (Int Int) Int)
(declare-fun memS (Int Int) Slice)
(declare-fun memO (Int Int) Bool)
(assert (forall ((b Int) (k Int)) (! (and (<= 0 (memB b k)) (< (memB b k) 256)) :pattern ((memB b k)))))
(define-fun wfS ((s Slice)) Bool (and (<= 0 (sbase s)) (<= 0 (soff s)) (<= 0 (slen s)) (<= (slen s) (scap s)) (<= (scap s) 281474976710656) (<= (soff s) 281474976710656)))
(assert (forall ((b Int) (k Int)) (! (wfS (memS b k)) :pattern ((memS b k)))))
(declare-fun atB (Slice Int) Int)
(declare-fun atI (Slice Int) Int)
(declare-fun atS (Slice Int) Slice)
(declare-fun atO (Slice Int) Bool)
(assert (forall ((s Slice) (i Int)) (! (= (atB s i) (memB (sbase s) (+ (soff s) i))) :pattern ((atB s i)))))
(assert (forall ((s Slice) (i Int)) (! (= (atI s i) (memI (sbase s) (+ (soff s) i))) :pattern ((atI s i)))))
(assert (forall ((s Slice) (i Int)) (! (= (atS s i) (memS (sbase s) (+ (soff s) i))) :pattern ((atS s i)))))
(assert (forall ((s Slice) (i Int)) (! (= (atO s i) (memO (sbase s) (+ (soff s) i))) :pattern ((atO s i)))))
(declare-fun bytesEq (Slice Slice) Bool)
(assert (forall ((a Slice) (b Slice)) (! (=> (bytesEq a b) (and (= (slen a) (slen b))
  (forall ((j Int)) (! (=> (and (<= (soff a) j) (< j (+ (soff a) (slen a)))) (= (memB (sbase a) j) (memB (sbase b) (+ (- j (soff a)) (soff b))))) :pattern ((memB (sbase a) j)) :weight 8))
  (forall ((j Int)) (! (=> (and (<= (soff b) j) (< j (+ (soff b) (slen b)))) (= (memB (sbase b) j) (memB (sbase a) (+ (- j (soff b)) (soff a))))) :pattern ((memB (sbase b) j)) :weight 8)))) :pattern ((bytesEq a b)))))
(assert (forall ((a Slice) (b Slice)) (! (=> (and (= (slen a) (slen b)) (forall ((j Int)) (=> (and (<= (soff a) j) (< j (+ (soff a) (slen a)))) (= (memB (sbase a) j) (memB (sbase b) (+ (- j (soff a)) (soff b))))))) (bytesEq a b)) :pattern ((bytesEq a b)))))
(assert (forall ((a Slice)) (! (bytesEq a a) :pattern ((bytesEq a a)))))
(declare-fun cid (Slice) Int)
(assert (forall ((a Slice) (b Slice)) (! (= (bytesEq a b) (= (cid a) (cid b))) :pattern ((bytesEq a b)))))
(declare-fun catS (Slice Slice) Slice)
(assert (forall ((a Slice) (b Slice)) (! (and (= (slen (catS a b)) (+ (slen a) (slen b))) (= (soff (catS a b)) 0) (< 1 (sbase (catS a b)))
  (forall ((j Int)) (! (=> (and (<= 0 j) (< j (slen a))) (= (memB (sbase (catS a b)) j) (memB (sbase a) (+ (soff a) j)))) :pattern ((memB (sbase (catS a b)) j))))
  (forall ((j Int)) (! (=> (and (<= (slen a) j) (< j (+ (slen a) (slen b)))) (= (memB (sbase (catS a b)) j) (memB (sbase b) (+ (soff b) (- j (slen a)))))) :pattern ((memB (sbase (catS a b)) j))))) :pattern ((catS a b)))))
(declare-fun dyntype (Int) Int)
(declare-fun ifaceI (Int) Int)
(declare-fun ifaceS (Int) Slice)
(declare-fun ifaceO (Int) Bool)
(assert (forall ((h Int)) (! (wfS (ifaceS h)) :pattern ((ifaceS h)))))
(declare-fun errIs (Int Int) Bool)
`

var repoPkgPrefix = "github.com/c2FmZQ/ech"

func loadProgram(repo string) (*Program, error) {
	prog := &Program{pkgs: map[string]*packages.Package{}, contracts: newContracts(),
		funcDecls: map[*types.Func]*ast.FuncDecl{}, funcPkg: map[*types.Func]*packages.Package{},
		funcByKey: map[string]*types.Func{}, globalInit: map[*types.Var]ast.Expr{}}
	fset := token.NewFileSet()
	prog.fset = fset
	for _, dir := range []string{repo, filepath.Join(repo, "publish")} {
		cfg := &packages.Config{Mode: packages.LoadAllSyntax, Dir: dir, BuildFlags: []string{"-tags=verif"}, Fset: fset,
			Env: append(os.Environ(), "GOFLAGS=-mod=mod", "GOPROXY=off")}
		pkgs, err := packages.Load(cfg, "./...")
		if err != nil {
			return nil, err
		}
		packages.Visit(pkgs, nil, func(p *packages.Package) {
			if _, ok := prog.pkgs[p.PkgPath]; !ok {
				prog.pkgs[p.PkgPath] = p
			}
		})
		for _, p := range pkgs {
			for _, e := range p.Errors {
				return nil, fmt.Errorf("package %s: %v", p.PkgPath, e)
			}
		}
	}
	var paths []string
	for path := range prog.pkgs {
		paths = append(paths, path)
	}
	sort.Strings(paths)
	for _, path := range paths {
		p := prog.pkgs[path]
		if !strings.HasPrefix(path, repoPkgPrefix) || p.TypesInfo == nil {
			continue
		}
		for _, f := range p.Syntax {
			fname := fset.Position(f.Pos()).Filename
			if strings.HasSuffix(fname, "_test.go") {
				continue
			}
			for _, d := range f.Decls {
				switch d := d.(type) {
				case *ast.FuncDecl:
					if obj, ok := p.TypesInfo.Defs[d.Name].(*types.Func); ok {
						prog.funcDecls[obj] = d
						prog.funcPkg[obj] = p
						prog.funcByKey[path+"."+funcKey(obj)] = obj
					}
				case *ast.GenDecl:
					if d.Tok != token.VAR {
						continue
					}
					for _, sp := range d.Specs {
						vs := sp.(*ast.ValueSpec)
						for i, n := range vs.Names {
							obj, ok := p.TypesInfo.Defs[n].(*types.Var)
							if !ok {
								continue
							}
							if i < len(vs.Values) {
								prog.globalInit[obj] = vs.Values[i]
							}
							if types.Identical(obj.Type(), types.Universe.Lookup("error").Type()) {
								prog.repoSentinels = append(prog.repoSentinels, obj)
							}
						}
					}
				}
			}
			// contract files live next to the code
		}
		if len(p.GoFiles) > 0 {
			dir := filepath.Dir(p.GoFiles[0])
			matches, _ := filepath.Glob(filepath.Join(dir, "*_verif.go"))
			sort.Strings(matches)
			for _, m := range matches {
				if err := prog.contracts.loadFile(m, path); err != nil {
					return nil, err
				}
			}
		}
	}
	for _, s := range prog.repoSentinels {
		prog.sentinelIndex(s)
	}
	// library contracts
	libs, _ := filepath.Glob(filepath.Join(verifDir(), "lib", "*.contracts"))
	sort.Strings(libs)
	for _, l := range libs {
		if err := prog.contracts.loadFile(l, repoPkgPrefix); err != nil {
			return nil, err
		}
	}
	return prog, nil
}

func verifDir() string {
	if d := os.Getenv("VERIF_DIR"); d != "" {
		return d
	}
	return "/verif"
}

func (p *Program) nodeSource(n ast.Node) string {
	var sb strings.Builder
	if err := printer.Fprint(&sb, p.fset, n); err != nil {
		return ""
	}
	return sb.String()
}

// FuncResult is the outcome of generating VCs for one function.
type FuncResult struct {
	Name        string
	File        string
	Obls        []*Obl
	Decls       []string
	Facts       []*T
	FactScopes  [][]int
	Errors      []string
	Drift       []string
	Unmodelled  []string
	Stores      []string
	Assumptions []string
	LibUsed     []string
	Trusted     bool
	BodyHash    string
	Behavior    string
	Warnings    []string
	declNames   map[string]bool
	symCache    map[*T]map[string]bool
	mu          sync.Mutex
}

func keysOf(m map[string]bool) []string {
	var out []string
	for k := range m {
		out = append(out, k)
	}
	sort.Strings(out)
	return out
}

// verifyFunc generates the verification conditions of one function under contract.
func verifyFunc(prog *Program, key string) (res *FuncResult) { return verifyFuncBeh(prog, key, nil) }

// verifyAll verifies the default contract and every behavior of a function.
func verifyAll(prog *Program, key string) []*FuncResult {
	out := []*FuncResult{verifyFuncBeh(prog, key, nil)}
	if fc := prog.contracts.Funcs[key]; fc != nil {
		for _, b := range fc.Behaviors {
			out = append(out, verifyFuncBeh(prog, key, b))
		}
	}
	return out
}

func verifyFuncBeh(prog *Program, key string, beh *Behavior) (res *FuncResult) {
	res = &FuncResult{Name: key}
	fn := prog.funcByKey[key]
	fc := prog.contracts.Funcs[key]
	if beh != nil && fc != nil {
		// specialise the contract: assumptions become preconditions, behavior clauses replace the base postconditions
		cp := *fc
		cp.Requires = append(append([]*Clause{}, fc.Requires...), beh.Assumes...)
		cp.Ensures = beh.Ensures
		cp.Checks = nil
		cp.Loops = map[int]*LoopContract{}
		for n, lc := range fc.Loops {
			c2 := *lc
			c2.Invariants = nil
			for _, inv := range lc.Invariants {
				ic := *inv
				ic.FromBase = true
				c2.Invariants = append(c2.Invariants, &ic)
			}
			cp.Loops[n] = &c2
		}
		for n, lc := range beh.Loops {
			if base, ok := cp.Loops[n]; ok {
				base.Invariants = append(append([]*Clause{}, base.Invariants...), lc.Invariants...)
				if lc.Decreases != nil {
					base.Decreases = lc.Decreases
				}
			} else {
				cp.Loops[n] = lc
			}
		}
		cp.Behaviors = nil
		cp.Callsites = append(append([]*CallsiteClause{}, fc.Callsites...), beh.Callsites...)
		fc = &cp
		res.Name = key + "{" + beh.Name + "}"
		res.Behavior = beh.Name
	}
	if fn == nil {
		res.Drift = append(res.Drift, "function "+key+" not found in the source")
		return res
	}
	if fc == nil {
		fc = &FuncContract{Key: funcKey(fn), Pkg: fn.Pkg().Path(), Loops: map[int]*LoopContract{}, Params: map[string]*ParamContract{}}
	}
	decl := prog.funcDecls[fn]
	pkg := prog.funcPkg[fn]
	if decl == nil || decl.Body == nil {
		res.Drift = append(res.Drift, "function "+key+" has no body")
		return res
	}
	res.File = prog.fset.Position(decl.Pos()).Filename
	ex := newExec(prog, pkg, fn, fc)
	ex.name = pkg.Types.Name() + "." + fc.Key
	if beh != nil {
		ex.name += "{" + beh.Name + "}"
		ex.skipSafety = true
	}
	defer func() {
		if r := recover(); r != nil {
			res.Errors = append(res.Errors, fmt.Sprintf("engine panic in %s at %s: %v", key, ex.posString(ex.curPos), r))
			if os.Getenv("GOVC_PANIC") != "" {
				panic(r)
			}
		}
	}()
	sig := fn.Type().(*types.Signature)
	ex.setupRenames(key, decl, pkg.TypesInfo)
	// loop contracts must match loops
	li := alignLoops(decl.Body, fc)
	for n := range fc.Loops {
		found := false
		for _, m := range li {
			if m == n {
				found = true
			}
		}
		if !found {
			// clauses for a loop that no longer exists are ignored (reported in the evidence), the remaining loops keep theirs
			res.Warnings = append(res.Warnings, fmt.Sprintf("%s: contract names loop %d but the function has %d loops", key, n, len(li)))
		}
	}
	// parameters as fresh constants
	sc := &specCtx{ex: ex, st: ex.st, vars: map[string]Val{}, stateVars: map[string]stateVar{}, pkg: pkg.Types, where: fc.Line}
	ex.paramVals = map[string]Val{}
	ex.paramObjs = map[*types.Var]Val{}
	var recv *Val
	mkParam := func(v *types.Var) Val {
		name := v.Name()
		if name == "" || name == "_" {
			name = "anon"
		}
		c := ex.fresh("p."+sanitize(name), sortOf(v.Type()))
		ex.rawFact(ex.typeFact(v.Type(), c))
		if f := ex.refBounds(v.Type(), c, ex.allocInit(), 0); f != True {
			ex.rawFact(f)
		}
		val := Val{c, v.Type()}
		if v.Name() != "" && v.Name() != "_" {
			sc.vars[v.Name()] = val
			ex.paramVals[v.Name()] = val
			ex.paramObjs[v] = val
		}
		ex.inputs = append(ex.inputs, val)
		ex.inputNames = append(ex.inputNames, name)
		return val
	}
	if sig.Recv() != nil {
		v := mkParam(sig.Recv())
		recv = &v
	}
	var args []Val
	for i := 0; i < sig.Params().Len(); i++ {
		args = append(args, mkParam(sig.Params().At(i)))
	}
	for gi, gn := range fc.GhostNames {
		gt := ex.lookupType(pkg.Types, fc.GhostTypes[gi])
		c := ex.fresh("gp."+sanitize(gn), sortOf(gt))
		ex.rawFact(ex.typeFact(gt, c))
		sc.vars[gn] = Val{c, gt}
		ex.paramVals[gn] = Val{c, gt}
	}
	for _, c := range fc.Requires {
		ex.assume(ex.specBool(sc, c))
	}
	for _, ln := range fc.Uses {
		ex.useLemma(ln)
	}
	ex.oldState = ex.st.clone()
	ex.frameVars = sc.vars
	checkEnsures := func(outs []Val, suffix string) {
		if ex.st.dead {
			return
		}
		post := &specCtx{ex: ex, st: ex.st, old: ex.oldState, vars: map[string]Val{}, stateVars: map[string]stateVar{}, pkg: pkg.Types}
		for k, v := range ex.paramVals {
			post.vars[k] = v
		}
		// written parameters denote their final content
		for _, w := range fc.Writes {
			for i := 0; i < sig.Params().Len(); i++ {
				p := sig.Params().At(i)
				if p.Name() == w {
					if t := ex.st.env[ex.keyOf(paramObj(decl, pkg, w))]; t != nil {
						post.vars[w] = Val{t, p.Type()}
					}
				}
			}
		}
		for i := 0; i < sig.Results().Len() && i < len(outs); i++ {
			rn := sig.Results().At(i).Name()
			if i < len(fc.Results) {
				rn = fc.Results[i]
			}
			if rn != "" && rn != "_" {
				post.vars[rn] = outs[i]
			}
			if sig.Results().Len() == 1 {
				post.vars["result"] = outs[i]
			}
		}
		ex.curPos = decl.Pos()
		if len(fc.GhostSets) > 0 {
			ex.applyGhostSets(post, fc, true)
			post.st = ex.st
		}
		if suffix == "" || !ex.exitsChecked {
			// (per-exit checks run before exitsChecked is set; the frame is checked once, on the merged exit state)
		}
		if os.Getenv("GOVC_VACUITY_PROBE") != "" && suffix != "" {
			// diagnostic: "false" at this exit must NOT be provable (it is only if the exit is unreachable or the facts are
			// contradictory); such probes are never assumed and never part of a property
			ex.obls = append(ex.obls, &Obl{Name: fmt.Sprintf("%s/V:vacuity-probe%s", ex.name, suffix), Kind: "V", Pos: ex.posString(decl.Pos()), PC: ex.st.pc, Goal: False, NFacts: len(ex.facts), Func: ex.name, Scopes: ex.st.scopes, FactIdx: -1})
		}
		for i, c := range fc.Ensures {
			kind, lab := "E", c.Label
			if lab == "" {
				lab = fmt.Sprint(i + 1)
			}
			if j := strings.Index(lab, ":"); j == 1 {
				kind, lab = lab[:1], lab[2:]
			}
			g, ok := ex.specTry(post, c)
			if !ok {
				lab += ":not-evaluable"
			}
			ex.curPos = decl.Pos()
			ex.assert(kind, "ensures["+lab+"]"+suffix, g)
		}
		// local checks may name variables of the function body (scope at the closing brace)
		post.pos = decl.Body.Rbrace
		for i, c := range fc.Checks {
			kind, lab := "E", c.Label
			if lab == "" {
				lab = fmt.Sprint(i + 1)
			}
			if j := strings.Index(lab, ":"); j == 1 {
				kind, lab = lab[:1], lab[2:]
			}
			post.lenient, post.missing = true, false
			g, ok := ex.specTry(post, c)
			post.lenient = false
			if post.missing {
				// the clause names a local that is not in scope at this exit: not applicable here
				continue
			}
			if !ok {
				lab += ":not-evaluable"
			}
			ex.curPos = decl.Pos()
			ex.assert(kind, "check["+lab+"]"+suffix, g)
		}
		post.pos = token.NoPos
	}
	ex.exitHook = checkEnsures
	outs := ex.inlineBody(fn.FullName(), sig, decl.Type, decl.Body, decl.Recv, recv, args, pkg, fc, true)
	if !ex.exitsChecked {
		checkEnsures(outs, "")
	}
	if fc.IterBody && !ex.st.dead && len(outs) == 1 {
		// the returned function literal is executed once, right away, with contracted function parameters
		// (captured variables keep the values they had when the literal was created)
		if c, ok := ex.closures[outs[0].T.String()]; ok {
			lsig := pkg.TypesInfo.TypeOf(c.lit).(*types.Signature)
			var largs []Val
			for i := 0; i < lsig.Params().Len(); i++ {
				p := lsig.Params().At(i)
				v := ex.fresh("ip."+p.Name(), sortOf(p.Type()))
				ex.assume(And(ex.typeFact(p.Type(), v), Lt(I(0), v)))
				largs = append(largs, Val{v, p.Type()})
			}
			ex.code = append(ex.code, &codeCtx{name: "iterbody", pkg: pkg, fc: fc, loopIdx: alignLoops(decl.Body, fc)})
			ex.inlineBody("iterbody@"+ex.posString(c.lit.Pos()), lsig, c.lit.Type, c.lit.Body, nil, nil, largs, pkg, fc, false)
			if !ex.st.dead {
				// a second enumeration of the same sequence value, started in the state the first one left behind: the
				// ghost cells of the contract are reset to what its preconditions say, everything else carries over, and
				// all obligations are generated again (suffix #2). A sequence that keeps state between enumerations fails here.
				sc2 := &specCtx{ex: ex, st: ex.st, old: ex.oldState, vars: sc.vars, stateVars: map[string]stateVar{}, pkg: pkg.Types, where: fc.Line}
				for _, m := range fc.Modifies {
					key, ref, ok := ex.specLvalue(sc2, m.Expr)
					if !ok || !strings.HasPrefix(key, "$G.") {
						continue
					}
					if ref == nil {
						ex.havocKey(key)
						continue
					}
					cur := ex.get(ex.st, key)
					ex.st.env[key] = Store(cur, ref, ex.fresh("mod", elemSortOf(cur.S)))
				}
				sc2.st = ex.st
				for _, c := range fc.Requires {
					ex.assume(ex.specBool(sc2, c))
				}
				var largs2 []Val
				for i := 0; i < lsig.Params().Len(); i++ {
					p := lsig.Params().At(i)
					v := ex.fresh("ip2."+p.Name(), sortOf(p.Type()))
					ex.assume(And(ex.typeFact(p.Type(), v), Lt(I(0), v)))
					largs2 = append(largs2, Val{v, p.Type()})
				}
				ex.inlineBody("iterbody2@"+ex.posString(c.lit.Pos()), lsig, c.lit.Type, c.lit.Body, nil, nil, largs2, pkg, fc, false)
			}
			ex.code = ex.code[:len(ex.code)-1]
		} else {
			res.Errors = append(res.Errors, key+": iterbody: the function does not return a function literal")
		}
	}
	res.Obls = ex.obls
	for _, o := range res.Obls {
		o.FuncKey = res.Name
	}
	for _, n := range ex.declOrder {
		if d := ex.decls[n]; d != "" {
			res.Decls = append(res.Decls, d)
		}
	}
	res.Facts = ex.facts
	res.FactScopes = ex.factScopes
	res.Errors = dedupe(ex.errs)
	res.Drift = append(res.Drift, ex.drift...)
	for _, cc := range fc.Callsites {
		if !ex.callsitesUsed[cc] && cc.Stmt && cc.Lemma {
			res.Warnings = append(res.Warnings, fmt.Sprintf("%s: lemma at %q matches no statement", key, cc.CallText))
			continue
		}
		if !ex.callsitesUsed[cc] && cc.Stmt {
			// the statement the assertion is attached to is gone: what it asserted cannot be established on this code
			kind, lab := "F", cc.Req.Label
			if j := strings.Index(lab, ":"); j == 1 {
				kind, lab = lab[:1], lab[2:]
			}
			o := &Obl{Name: fmt.Sprintf("%s/%s:at[%s]:no-such-statement", ex.name, kind, lab), Kind: kind, Pos: cc.Req.Line, PC: True, Goal: False, NFacts: 0, Func: ex.name, FactIdx: -1, FuncKey: res.Name}
			res.Obls = append(res.Obls, o)
			res.Warnings = append(res.Warnings, fmt.Sprintf("%s: at %q matches no statement", key, cc.CallText))
			continue
		}
		if !ex.callsitesUsed[cc] {
			// the call the clause speaks about is gone: the clause cannot be established on this code
			kind, lab := "F", cc.Req.Label
			if j := strings.Index(lab, ":"); j == 1 {
				kind, lab = lab[:1], lab[2:]
			}
			o := &Obl{Name: fmt.Sprintf("%s/%s:callsite[%s]:no-such-call", ex.name, kind, lab), Kind: kind, Pos: cc.Req.Line, PC: True, Goal: False, NFacts: 0, Func: ex.name, FactIdx: -1, FuncKey: res.Name}
			res.Obls = append(res.Obls, o)
			res.Warnings = append(res.Warnings, fmt.Sprintf("%s: callsite %q matches no call expression", key, cc.CallText))
		}
	}
	for _, cc := range fc.Closures {
		if !ex.closuresUsed[cc] {
			o := &Obl{Name: fmt.Sprintf("%s/F:closure[%s]:no-such-literal", ex.name, cc.Text), Kind: "F", Pos: fc.Line, PC: True, Goal: False, NFacts: 0, Func: ex.name, FactIdx: -1, FuncKey: res.Name}
			res.Obls = append(res.Obls, o)
		}
	}
	for _, b := range fc.Binds {
		if !ex.bindsUsed[b] {
			// an unused ghost binding only makes obligations harder to prove; it cannot hide one
			res.Warnings = append(res.Warnings, fmt.Sprintf("%s: bind %q matches no call expression", key, b.CallText))
		}
	}
	res.Warnings = append(res.Warnings, keysOf(ex.warnings)...)
	res.Unmodelled = keysOf(ex.unmodelled)
	res.Stores = keysOf(ex.stores)
	res.Assumptions = keysOf(ex.assumptions)
	res.LibUsed = keysOf(ex.libUsed)
	for _, o := range res.Obls {
		for i, in := range ex.inputs {
			o.Wanted = append(o.Wanted, in.T)
			o.WantedN = append(o.WantedN, ex.inputNames[i])
		}
	}
	return res
}

func paramObj(decl *ast.FuncDecl, pkg *packages.Package, name string) types.Object {
	for _, fld := range decl.Type.Params.List {
		for _, n := range fld.Names {
			if n.Name == name {
				return pkg.TypesInfo.Defs[n]
			}
		}
	}
	return nil
}

// query renders the SMT-LIB text of one obligation.
func (r *FuncResult) query(o *Obl, withModel bool) string { return r.queryMode(o, withModel, false) }

// symbolsOf returns the declared (non-builtin) symbols occurring in a term, ignoring path-condition names.
func (r *FuncResult) symbolsOf(t *T) map[string]bool {
	if r.declNames == nil {
		r.declNames = map[string]bool{}
		for _, d := range r.Decls {
			if strings.HasPrefix(d, "(declare-fun ") {
				rest := d[len("(declare-fun "):]
				if i := strings.IndexByte(rest, ' '); i > 0 {
					r.declNames[rest[:i]] = true
				}
			}
		}
		r.symCache = map[*T]map[string]bool{}
	}
	if s, ok := r.symCache[t]; ok {
		return s
	}
	out := map[string]bool{}
	str := t.str
	start := -1
	for i := 0; i <= len(str); i++ {
		if i < len(str) && str[i] != ' ' && str[i] != '(' && str[i] != ')' {
			if start < 0 {
				start = i
			}
			continue
		}
		if start >= 0 {
			tok := str[start:i]
			start = -1
			if r.declNames[tok] && !strings.HasPrefix(tok, "pc!") && !strings.HasPrefix(tok, "g!") && !strings.HasPrefix(tok, "hyp!") {
				out[tok] = true
			}
		}
	}
	r.symCache[t] = out
	return out
}

// queryMode renders the query. In local mode a quantified fact is kept only if it shares a declared symbol with
// the goal (dropping assumptions is sound; a second, complete attempt follows when the local one is not decisive).
// byteFree reports whether a goal does not talk about byte contents at all.
func byteFree(o *Obl) bool {
	g := o.Goal.str
	return !strings.Contains(g, "memB") && !strings.Contains(g, "atB") && !strings.Contains(g, "bytesEq") && !strings.Contains(g, "cid ")
}

var preludeNoBytes = func() string {
	// the prelude without the quantified byte-level axioms (memB range, bytesEq elimination/introduction, cid, catS)
	var out []string
	skip := false
	for _, ln := range strings.Split(prelude, "\n") {
		if strings.HasPrefix(ln, "(assert (forall") {
			skip = strings.Contains(ln, "memB") || strings.Contains(ln, "bytesEq") || strings.Contains(ln, "catS")
		} else if strings.HasPrefix(ln, "(") {
			skip = false
		}
		if skip {
			continue
		}
		out = append(out, ln)
	}
	return strings.Join(out, "\n")
}()

func (r *FuncResult) queryMode(o *Obl, withModel, local bool) string {
	var sb strings.Builder
	if local {
		sb.WriteString(preludeNoBytes)
	} else {
		sb.WriteString(prelude)
	}
	for _, d := range r.Decls {
		sb.WriteString(d)
		sb.WriteByte('\n')
	}
	for fi, f := range r.Facts[:o.NFacts] {
		if o.Excl[fi] {
			continue
		}
		// facts assumed inside a loop body only concern states that went through that body
		if fi < len(r.FactScopes) {
			skip := false
			for _, sc := range r.FactScopes[fi] {
				if !o.Scopes[sc] {
					skip = true
					break
				}
			}
			if skip {
				continue
			}
		}
		if local && strings.Contains(f.str, "(forall ") && (strings.Contains(f.str, "memB") || strings.Contains(f.str, "atB") || strings.Contains(f.str, "bytesEq")) {
			continue
		}
		sb.WriteString("(assert ")
		sb.WriteString(f.String())
		sb.WriteString(")\n")
	}
	sb.WriteString("; obligation " + o.Name + " at " + o.Pos + "\n")
	sb.WriteString("(assert " + o.PC.String() + ")\n")
	sb.WriteString("(assert (not " + o.Goal.String() + "))\n")
	sb.WriteString("(check-sat)\n")
	if withModel {
		sb.WriteString("(get-model)\n")
	}
	return sb.String()
}

// frameFormula states that, in state st, every heap or ghost cell of an object that existed at function entry
// and is not named in the function's modifies clause still has its entry value. Only arrays whose version differs
// from the entry version (or, if keys is given, exactly those keys) contribute.
func (ex *Exec) frameFormula(st *State, keys []string) *T {
	if ex.oldState == nil || ex.fc == nil {
		return True
	}
	pk := ex.prog.funcPkg[ex.fn].Types
	pre := &specCtx{ex: ex, st: ex.oldState, old: ex.oldState, vars: ex.frameVars, stateVars: map[string]stateVar{}, pkg: pk, where: ex.fc.Line}
	if pre.vars == nil {
		pre.vars = map[string]Val{}
		for k, v := range ex.paramVals {
			pre.vars[k] = v
		}
	}
	type target struct {
		key string
		ref *T
	}
	if ex.frameTargets == nil {
		ex.frameTargets = [][2]any{}
		for _, m := range ex.fc.Modifies {
			pre.where = m.Line
			key, ref, ok := ex.specLvalue(pre, m.Expr)
			if ok {
				ex.frameTargets = append(ex.frameTargets, [2]any{key, ref})
			}
		}
	}
	if keys == nil {
		for k := range st.env {
			keys = append(keys, k)
		}
		sort.Strings(keys)
	}
	allocOld := ex.get(ex.oldState, "$alloc")
	var gs []*T
	for _, k := range keys {
		if !(strings.HasPrefix(k, "$H.") || strings.HasPrefix(k, "$G.") || strings.HasPrefix(k, "$P.") || strings.HasPrefix(k, "$M.")) {
			continue
		}
		cur := ex.get(st, k)
		old := ex.get(ex.oldState, k)
		if cur == old {
			continue
		}
		whole := false
		p := Const("p", SInt)
		conds := []*T{Lt(p, allocOld), Le(I(0), p)}
		for _, tg := range ex.frameTargets {
			if tg[0].(string) == k {
				if tg[1] == nil || tg[1].(*T) == nil {
					whole = true
				} else {
					conds = append(conds, Ne(p, tg[1].(*T)))
				}
			}
		}
		if whole {
			continue
		}
		gs = append(gs, Forall([]string{"p"}, Imp(And(conds...), Eq(Select(cur, p), Select(old, p))), Select(cur, p)))
	}
	return And(gs...)
}

// verifyLemma turns a lemma (a closed formula over its parameters) into obligations.
func verifyLemma(prog *Program, name string) (res *FuncResult) {
	res = &FuncResult{Name: "lemma:" + name}
	pd := prog.contracts.Lemmas[name]
	if pd == nil {
		res.Drift = append(res.Drift, "lemma "+name+" not found in the contract files")
		return res
	}
	pkg := prog.pkgs[pd.Pkg]
	ex := newExec(prog, pkg, nil, &FuncContract{Line: pd.Line})
	ex.name = "lemma." + name
	defer func() {
		if r := recover(); r != nil {
			res.Errors = append(res.Errors, fmt.Sprintf("engine panic in lemma %s: %v", name, r))
			if os.Getenv("GOVC_PANIC") != "" {
				panic(r)
			}
		}
	}()
	sc := &specCtx{ex: ex, st: ex.st, vars: map[string]Val{}, stateVars: map[string]stateVar{}, pkg: pkg.Types, where: pd.Line}
	for i, n := range pd.ParamName {
		t := ex.lookupType(pkg.Types, pd.ParamType[i])
		c := ex.fresh("l."+sanitize(n), sortOf(t))
		ex.rawFact(ex.typeFact(t, c))
		sc.vars[n] = Val{c, t}
	}
	if pd.InductVar == "" {
		g := ex.specBool(sc, pd.Body)
		ex.assert("L", "lemma", g)
	} else {
		// induction downwards from the bound: (a) v >= upto ==> body(v); (b) v < upto && body(v+1) ==> body(v)
		v, ok := sc.vars[pd.InductVar]
		if !ok {
			res.Errors = append(res.Errors, "lemma "+name+": unknown induction variable "+pd.InductVar)
			return res
		}
		upto, _ := ex.specEval(sc, pd.InductUpto.Expr)
		body := ex.specBool(sc, pd.Body)
		next := sc.bind(pd.InductVar, Val{Add(v.T, I(1)), v.Typ})
		ih := ex.specBool(next, pd.Body)
		base := ex.st
		baseSt := ex.branch(base, Ge(v.T, upto.T), func() { ex.assert("L", "lemma-base", body) })
		_ = baseSt
		ex.st = base
		stepSt := ex.branch(base, Lt(v.T, upto.T), func() {
			ex.assume(ih)
			ex.assert("L", "lemma-step", body)
		})
		_ = stepSt
		ex.st = base
	}
	res.Obls = ex.obls
	for _, n := range ex.declOrder {
		if d := ex.decls[n]; d != "" {
			res.Decls = append(res.Decls, d)
		}
	}
	res.Facts = ex.facts
	res.Errors = dedupe(ex.errs)
	res.File = pd.Line
	return res
}

// frameTargetsFor returns the modifies targets of the function under verification for a heap key:
// whole=true when the entire key may change, otherwise the references that may be written.
func (ex *Exec) frameTargetsFor(key string) (refs []*T, whole bool) {
	if ex.oldState == nil || ex.fc == nil {
		return nil, true
	}
	ex.frameFormula(ex.oldState, []string{}) // make sure frameTargets is initialised
	for _, tg := range ex.frameTargets {
		if tg[0].(string) == key {
			if tg[1] == nil || tg[1].(*T) == nil {
				return nil, true
			}
			refs = append(refs, tg[1].(*T))
		}
	}
	return refs, false
}

// checkWrite emits the frame obligation for one write to a heap or ghost cell: the cell belongs to an object
// allocated by this activation or is named in the function's modifies clause.
func (ex *Exec) checkWrite(key string, ref *T) {
	if ex.oldState == nil || ex.fn == nil || ex.st.dead {
		return
	}
	refs, whole := ex.frameTargetsFor(key)
	if whole {
		return
	}
	conds := []*T{Le(ex.get(ex.oldState, "$alloc"), ref)}
	if strings.HasPrefix(key, "$M.") {
		// a nil map has no contents to write (a write through it is a separate obligation)
		conds = append(conds, Eq(ref, I(0)))
	}
	for _, r := range refs {
		conds = append(conds, Eq(ref, r))
	}
	ex.assert("O", "write["+strings.TrimPrefix(key, "$")+"]", Or(conds...))
}

// useLemma assumes a (separately proved) lemma as a universally quantified fact.
func (ex *Exec) useLemma(name string) {
	pd := ex.prog.contracts.Lemmas[name]
	if pd == nil {
		ex.errs = append(ex.errs, "use of unknown lemma "+name)
		return
	}
	pk := ex.pkgTypes(pd.Pkg)
	sc := &specCtx{ex: ex, st: ex.st, vars: map[string]Val{}, stateVars: map[string]stateVar{}, pkg: pk, where: pd.Line, depth: 30}
	var bvs []string
	for i, n := range pd.ParamName {
		t := ex.lookupType(pk, pd.ParamType[i])
		switch sortOf(t) {
		case SSlice:
			bvs = append(bvs, "q_"+n+":Slice")
			sc.vars[n] = Val{Const("q_"+n, SSlice), t}
		case SBool:
			bvs = append(bvs, "q_"+n+":Bool")
			sc.vars[n] = Val{Const("q_"+n, SBool), t}
		default:
			bvs = append(bvs, "q_"+n)
			sc.vars[n] = Val{Const("q_"+n, SInt), t}
		}
	}
	body := ex.specBool(sc, pd.Body)
	var pats []*T
	for _, tc := range pd.Triggers {
		tv, _ := ex.specEval(sc, tc.Expr)
		pats = append(pats, tv.T)
	}
	if len(pats) > 1 {
		ex.rawFact(ForallMulti(bvs, body, pats))
	} else {
		ex.rawFact(Forall(bvs, body, pats...))
	}
	ex.lemmasUsed[name] = true
}
