package main

import (
	"fmt"
	"go/ast"
	"go/token"
	"go/types"
	"sort"
	"strings"

	"golang.org/x/tools/go/packages"
)

// Val is a symbolic Go value.
type Val struct {
	T   *T
	Typ types.Type
}

// State is a symbolic program state on one path set.
type State struct {
	env    map[string]*T
	pc     *T
	dead   bool
	scopes map[int]bool // loop-body instances this state has passed through (lineage)
	retPos token.Pos    // for an exit state: position of the return statement that produced it
}

func (s *State) clone() *State {
	n := &State{env: make(map[string]*T, len(s.env)), pc: s.pc, dead: s.dead, retPos: s.retPos}
	for k, v := range s.env {
		n.env[k] = v
	}
	if len(s.scopes) > 0 {
		n.scopes = make(map[int]bool, len(s.scopes))
		for k := range s.scopes {
			n.scopes[k] = true
		}
	}
	return n
}

func scopeList(m map[int]bool) []int {
	var out []int
	for k := range m {
		out = append(out, k)
	}
	sort.Ints(out)
	return out
}

// Obl is a proof obligation.
type Obl struct {
	Name      string
	Kind      string // S, T, F, L, O, pre, inv
	Pos       string
	PC        *T
	Goal      *T
	NFacts    int
	Func      string
	Scopes    map[int]bool
	FuncKey   string
	FactIdx   int          // index of the fact that assumes this obligation for what follows (-1: none)
	Support   bool         // not part of the property's selection; later selected obligations assume it, so it is solved too
	LemmaStep bool         // from an "at ... lemma" clause: a proof step, never reported itself
	Excl      map[int]bool // facts to leave out of the query (failed supporting obligations)
	DependsOn string       // set when the obligation only fails without a failed supporting obligation's fact
	// filled by solver
	Result  string
	Backend string
	Secs    float64
	Model   string
	File    string
	Vals    map[string]string // values of inputs from the model
	Wanted  []*T              // terms whose model values are requested
	WantedN []string
}

type deferred struct {
	call *ast.CallExpr
	args []Val
	recv *Val
	lit  *ast.FuncLit
}

type frame struct {
	sig     *types.Signature
	resKeys []string
	resTyps []types.Type
	exits   []*State
	defers  []deferred
	fnName  string
	named   bool
	entry   map[string]Val // parameter values at entry (callsite clauses name them <param>0)
}

type loopFrame struct {
	label     string
	breaks    []*State
	continues []*State
	isSwitch  bool
}

type closure struct {
	lit    *ast.FuncLit
	name   string
	native func(args []Val) []Val // engine-level function value (the body of a range-over-func loop seen as yield)
}

// Program holds everything loaded.
type Program struct {
	pkgs          map[string]*packages.Package // by path
	fset          *token.FileSet
	contracts     *Contracts
	funcDecls     map[*types.Func]*ast.FuncDecl
	funcPkg       map[*types.Func]*packages.Package
	funcByKey     map[string]*types.Func // pkgpath.Key -> func
	sentinels     []*types.Var           // package-level error vars of repo packages
	mapLits       map[*types.Var]*ast.CompositeLit
	globalInit    map[*types.Var]ast.Expr
	repoSentinels []*types.Var
}

// Exec is the symbolic executor for one function under verification.
type Exec struct {
	prog *Program
	pkg  *packages.Package
	fn   *types.Func
	fc   *FuncContract
	name string // display name pkg.Func

	decls      map[string]string
	declOrder  []string
	facts      []*T
	factScopes [][]int // per fact: loop-body instances it was assumed in
	nScope     int
	obls       []*Obl
	nfresh     int
	st         *State
	frames     []*frame
	loops      []*loopFrame
	quiet      int
	oblCount   map[string]int

	keyType     map[string]types.Type
	objKey      map[types.Object]string
	boxed       map[types.Object]bool
	noSR        map[types.Object]bool // struct variables kept as one handle (parameters of predicate literals)
	closures    map[string]*closure
	builders    map[string]bool
	dynType     map[string]types.Type // term string -> concrete type of interface value
	strLits     map[string]*T
	loopN       int
	inlineDepth int
	inlineStack []string

	oldState     *State
	paramVals    map[string]Val
	renamed      map[string][]*types.Var // contract name -> renamed variables now standing at its recorded position
	renamedObj   map[*types.Var]string
	boundNames   []string // names of the quantified variables currently being bound in a spec expression
	closuresUsed map[*ClosureContract]bool
	rangeOps     map[string]Val     // operands of the range loops currently executing, by index key
	views        []viewRec          // variables bound to a two-index slice of another variable (possible spare capacity over live elements)
	paramObjs    map[*types.Var]Val // entry values of the parameters of the function under verification
	entryStack   []*State

	unmodelled    map[string]bool
	stores        map[string]bool
	assumptions   map[string]bool
	libUsed       map[string]bool
	heapSort      map[string]Sort
	warnings      map[string]bool
	mkSeen        map[string]int
	factTag       map[int]string
	lemmasUsed    map[string]bool
	untouched     map[*State]bool // branch states whose path condition is still the branch condition (no early exit inside)
	code          []*codeCtx
	nInline       int
	exitHook      func(outs []Val, suffix string)
	exitsChecked  bool
	ghostEnv      []map[string]Val
	beWhole       *T
	skipSafety    bool // behavior runs: safety/termination/frame obligations are proved in the default run
	bindsUsed     map[*Bind]bool
	callsitesUsed map[*CallsiteClause]bool
	frameVars     map[string]Val
	frameTargets  [][2]any
	lastFrame     *frame
	sizes         []*T
	strKeys       []*T
	drift         []string
	dryStates     []*State
	gotoHandler   func(label string)
	errs          []string
	curPos        token.Pos
	pendingLabel  string
	inputs        []Val // parameter terms for model extraction
	inputNames    []string
}

func newExec(prog *Program, pkg *packages.Package, fn *types.Func, fc *FuncContract) *Exec {
	ex := &Exec{
		prog: prog, pkg: pkg, fn: fn, fc: fc,
		decls: map[string]string{}, oblCount: map[string]int{},
		keyType: map[string]types.Type{}, objKey: map[types.Object]string{},
		boxed: map[types.Object]bool{}, noSR: map[types.Object]bool{}, closures: map[string]*closure{},
		builders: map[string]bool{}, dynType: map[string]types.Type{},
		strLits: map[string]*T{}, unmodelled: map[string]bool{}, stores: map[string]bool{},
		assumptions: map[string]bool{}, libUsed: map[string]bool{}, heapSort: map[string]Sort{}, untouched: map[*State]bool{}, bindsUsed: map[*Bind]bool{}, callsitesUsed: map[*CallsiteClause]bool{}, warnings: map[string]bool{}, mkSeen: map[string]int{}, lemmasUsed: map[string]bool{},
	}
	ex.st = &State{env: map[string]*T{}, pc: True}
	for _, n := range []string{"errIs", "dyntype", "ifaceI", "ifaceS", "ifaceO", "memB", "memI", "memS", "memO", "wfS", "bytesEq", "atB", "atI", "atS", "atO", "cid", "catS"} {
		ex.decls[n] = ""
	}
	return ex
}

func (ex *Exec) errorf(format string, args ...any) {
	msg := fmt.Sprintf(format, args...)
	if ex.curPos.IsValid() {
		msg = ex.prog.fset.Position(ex.curPos).String() + ": " + msg
	}
	ex.errs = append(ex.errs, msg)
}

var globalFresh int

func (ex *Exec) fresh(prefix string, s Sort) *T {
	globalFresh++
	ex.nfresh = globalFresh
	name := fmt.Sprintf("%s!%d", sanitize(prefix), ex.nfresh)
	ex.declare(name, nil, s)
	return Const(name, s)
}

func sanitize(s string) string {
	var sb strings.Builder
	for _, c := range s {
		if (c >= 'a' && c <= 'z') || (c >= 'A' && c <= 'Z') || (c >= '0' && c <= '9') || c == '_' || c == '.' || c == '$' {
			sb.WriteRune(c)
		} else {
			sb.WriteByte('_')
		}
	}
	if sb.Len() == 0 {
		return "v"
	}
	return sb.String()
}

func (ex *Exec) declare(name string, args []Sort, res Sort) {
	if _, ok := ex.decls[name]; ok {
		return
	}
	var sb strings.Builder
	fmt.Fprintf(&sb, "(declare-fun %s (", name)
	for i, a := range args {
		if i > 0 {
			sb.WriteByte(' ')
		}
		sb.WriteString(a.String())
	}
	fmt.Fprintf(&sb, ") %s)", res)
	ex.decls[name] = sb.String()
	ex.declOrder = append(ex.declOrder, name)
}

// rawFact adds an unguarded fact.
func (ex *Exec) rawFact(t *T) {
	if t == True {
		return
	}
	ex.facts = append(ex.facts, t)
	ex.factScopes = append(ex.factScopes, scopeList(ex.st.scopes))
}

// assume adds a fact under the current path condition.
func (ex *Exec) assume(t *T) {
	if t == True || ex.st.dead {
		return
	}
	ex.facts = append(ex.facts, Imp(ex.st.pc, t))
	ex.factScopes = append(ex.factScopes, scopeList(ex.st.scopes))
}

func (ex *Exec) posString(p token.Pos) string {
	if !p.IsValid() {
		return ""
	}
	ps := ex.prog.fset.Position(p)
	return fmt.Sprintf("%s:%d", ps.Filename, ps.Line)
}

// assert records an obligation (and then assumes it).
func (ex *Exec) assert(kind, label string, goal *T) {
	if ex.st.dead {
		return
	}
	if ex.quiet > 0 {
		ex.assume(goal)
		return
	}
	if goal == True {
		return
	}
	if ex.skipSafety && (kind == "S" || kind == "T" || kind == "O" || kind == "P") {
		// already discharged in the default verification of this function (which assumes less)
		ex.assume(goal)
		return
	}
	// name a large antecedent once so that the split parts share it
	if goal.Op == "=>" && len(goal.A[0].str) > 200 && len(splitGoal(goal.A[1])) > 1 && ex.quiet == 0 {
		h := ex.fresh("hyp", SBool)
		ex.rawFact(Eq(h, goal.A[0]))
		goal = Imp(h, goal.A[1])
	}
	if parts := splitGoal(goal); len(parts) > 1 {
		for i, p := range parts {
			ex.assert(kind, fmt.Sprintf("%s.%d", label, i+1), p)
		}
		return
	}
	base := fmt.Sprintf("%s/%s:%s", ex.name, kind, label)
	ex.oblCount[base]++
	name := base
	if n := ex.oblCount[base]; n > 1 {
		name = fmt.Sprintf("%s#%d", base, n)
	}
	o := &Obl{Name: name, Kind: kind, Pos: ex.posString(ex.curPos), PC: ex.st.pc, Goal: goal, NFacts: len(ex.facts), Func: ex.name, Scopes: ex.st.scopes, FactIdx: -1}
	ex.obls = append(ex.obls, o)
	n0 := len(ex.facts)
	if goal != False && !isKnownFailing(name) {
		// (an obligation that is false outright - a clause that cannot be evaluated - must not be assumed: it would make
		// everything after it vacuous; the same holds for an obligation that the committed known-findings file lists as
		// failing on this tree: nothing may rest on it, in any property's check)
		ex.assume(goal)
	}
	if len(ex.facts) == n0+1 {
		o.FactIdx = n0
	}
}

// ---- types and sorts ----

func sortOf(t types.Type) Sort {
	if t == nil {
		return SInt
	}
	switch u := t.Underlying().(type) {
	case *types.Basic:
		if u.Info()&types.IsBoolean != 0 {
			return SBool
		}
		if u.Info()&types.IsString != 0 {
			return SSlice
		}
		return SInt
	case *types.Slice, *types.Array:
		return SSlice
	}
	return SInt
}

func isByte(t types.Type) bool {
	b, ok := t.Underlying().(*types.Basic)
	return ok && (b.Kind() == types.Uint8)
}

func isString(t types.Type) bool {
	b, ok := t.Underlying().(*types.Basic)
	return ok && b.Info()&types.IsString != 0
}

func isUnsigned(t types.Type) bool {
	b, ok := t.Underlying().(*types.Basic)
	return ok && b.Info()&types.IsUnsigned != 0
}

func isInteger(t types.Type) bool {
	b, ok := t.Underlying().(*types.Basic)
	return ok && b.Info()&types.IsInteger != 0
}

func isFloat(t types.Type) bool {
	b, ok := t.Underlying().(*types.Basic)
	return ok && b.Info()&types.IsFloat != 0
}

// intBits returns the bit width and signedness of an integer type.
func intBits(t types.Type) (bits uint, signed bool, ok bool) {
	b, isb := t.Underlying().(*types.Basic)
	if !isb {
		return 0, false, false
	}
	switch b.Kind() {
	case types.Int8:
		return 8, true, true
	case types.Int16:
		return 16, true, true
	case types.Int32:
		return 32, true, true
	case types.Int64, types.Int, types.UntypedInt, types.UntypedRune:
		return 64, true, true
	case types.Uint8:
		return 8, false, true
	case types.Uint16:
		return 16, false, true
	case types.Uint32:
		return 32, false, true
	case types.Uint64, types.Uint, types.Uintptr:
		return 64, false, true
	}
	return 0, false, false
}

func elemTypeOf(t types.Type) types.Type {
	switch u := t.Underlying().(type) {
	case *types.Slice:
		return u.Elem()
	case *types.Array:
		return u.Elem()
	case *types.Basic:
		if u.Info()&types.IsString != 0 {
			return types.Typ[types.Uint8]
		}
	case *types.Pointer:
		if a, ok := u.Elem().Underlying().(*types.Array); ok {
			return a.Elem()
		}
	}
	return nil
}

func memFn(elem types.Type) (string, Sort) {
	if elem == nil {
		return "memI", SInt
	}
	if isByte(elem) {
		return "memB", SInt
	}
	switch sortOf(elem) {
	case SBool:
		return "memO", SBool
	case SSlice:
		return "memS", SSlice
	}
	return "memI", SInt
}

func (ex *Exec) memRead(elem types.Type, base, idx *T) *T {
	fn, s := memFn(elem)
	return App(fn, s, base, idx)
}

// elemAt returns the i-th element of slice term s.
func (ex *Exec) elemAt(s *T, elem types.Type, i *T) *T {
	// constant index into a literal window: read the array directly
	if _, ok := i.isNum(); ok && s.Op == "mk-slice" {
		return ex.memRead(elem, SBase(s), Add(SOff(s), i))
	}
	fn, srt := memFn(elem)
	// at* functions give quantifier patterns without arithmetic: atB(s, i) = memB(sbase s, soff s + i)
	return App("at"+fn[3:], srt, s, i)
}

func structName(t types.Type) string {
	if p, ok := t.(*types.Pointer); ok {
		t = p.Elem()
	}
	t = types.Unalias(t)
	if n, ok := t.(*types.Named); ok {
		o := n.Obj()
		nm := o.Name()
		if n.TypeArgs() != nil && n.TypeArgs().Len() > 0 {
			nm += "_g"
		}
		if o.Pkg() != nil {
			return o.Pkg().Name() + "_" + nm
		}
		return nm
	}
	return "anon_" + sanitize(t.String())
}

func structOf(t types.Type) *types.Struct {
	if t == nil {
		return nil
	}
	if p, ok := t.Underlying().(*types.Pointer); ok {
		t = p.Elem()
	}
	s, _ := t.Underlying().(*types.Struct)
	return s
}

func isPointer(t types.Type) bool {
	_, ok := t.Underlying().(*types.Pointer)
	return ok
}

func isInterface(t types.Type) bool {
	if t == nil {
		return false
	}
	_, ok := t.Underlying().(*types.Interface)
	return ok
}

// isRefType: values of these types are references into the allocation order.
func isRefType(t types.Type) bool {
	switch t.Underlying().(type) {
	case *types.Pointer, *types.Map, *types.Interface, *types.Chan:
		return true
	}
	return false
}

// refBounds states that every reference directly contained in the value v of type t (the value itself, or a field
// of a struct value, recursively) was allocated before the frontier.
func (ex *Exec) refBounds(t types.Type, v *T, frontier *T, depth int) *T {
	if t == nil || depth > 3 {
		return True
	}
	if isRefType(t) {
		return Lt(v, frontier)
	}
	if st, ok := t.Underlying().(*types.Struct); ok && v.S == SInt {
		var gs []*T
		for i := 0; i < st.NumFields(); i++ {
			f := st.Field(i)
			if isRefType(f.Type()) || structOf(f.Type()) != nil {
				gs = append(gs, ex.refBounds(f.Type(), ex.vfield(v, t, f), frontier, depth+1))
			}
		}
		return And(gs...)
	}
	return True
}

// vfield returns the value-struct field accessor term V.T.f(h).
func (ex *Exec) vfield(h *T, st types.Type, f *types.Var) *T {
	fname := f.Name()
	if fname == "_" {
		// blank fields share their name: tell them apart by position
		if su := structOf(st); su != nil {
			for i := 0; i < su.NumFields(); i++ {
				if su.Field(i) == f {
					fname = fmt.Sprintf("_%d", i)
				}
			}
		}
	}
	name := "V." + structName(st) + "." + fname
	s := sortOf(f.Type())
	if _, ok := ex.decls[name]; !ok {
		ex.declare(name, []Sort{SInt}, s)
		// global range axiom
		if ax := ex.typeFactQ(f.Type(), App(name, s, Const("h", SInt))); ax != True {
			ex.declAxiom(name+"$range", Forall([]string{"h"}, ax, App(name, s, Const("h", SInt))))
		}
	}
	return App(name, s, h)
}

// mkStruct builds the value of struct type t from its field values. Struct values are constructor terms:
// V.T.f(mk.T(x1..xn)) = xi and mk.T(V.T.f1(h)..V.T.fn(h)) = h, so equal fields mean equal values.
func (ex *Exec) mkStruct(t types.Type, fields []*T) *T {
	st := structOf(t)
	name := "mk." + structName(t)
	if _, ok := ex.decls[name]; !ok {
		var sorts []Sort
		var bvs []string
		var xs []*T
		for i := 0; i < st.NumFields(); i++ {
			s := sortOf(st.Field(i).Type())
			sorts = append(sorts, s)
			bv := fmt.Sprintf("x%c%d", "ios"[map[Sort]int{SInt: 0, SBool: 1, SSlice: 2}[s]], i)
			if s != SInt {
				bvs = append(bvs, bv+":"+string(s))
			} else {
				bvs = append(bvs, bv)
			}
			xs = append(xs, Const(bv, s))
		}
		ex.declare(name, sorts, SInt)
		if st.NumFields() > 0 {
			app := App(name, SInt, xs...)
			var projs, guards []*T
			for i := 0; i < st.NumFields(); i++ {
				projs = append(projs, Eq(ex.vfield(app, t, st.Field(i)), xs[i]))
				guards = append(guards, ex.typeFact(st.Field(i).Type(), xs[i]))
			}
			// the constructor is only meaningful on well-typed field values (V.* carry global range axioms)
			ex.declAxiom(name+"$proj", Forall(bvs, Imp(And(guards...), And(projs...)), app))
		}
	}
	app := App(name, SInt, fields...)
	// program values are well typed: state the projections of this particular value directly (ground facts)
	if pos, ok := ex.mkSeen[app.str]; !ok || pos >= len(ex.facts) || ex.factTag[pos] != app.str {
		if st.NumFields() > 0 {
			ex.mkSeen[app.str] = len(ex.facts)
			if ex.factTag == nil {
				ex.factTag = map[int]string{}
			}
			ex.factTag[len(ex.facts)] = app.str
			var ps []*T
			for i := 0; i < st.NumFields(); i++ {
				ps = append(ps, Eq(ex.vfield(app, t, st.Field(i)), fields[i]))
			}
			ex.rawFact(And(ps...))
		}
	}
	return app
}

func (ex *Exec) declAxiom(name string, ax *T) {
	if _, ok := ex.decls[name]; ok {
		return
	}
	ex.decls[name] = "(assert " + ax.String() + ")"
	ex.declOrder = append(ex.declOrder, name)
}

// heapKey returns the env key of the heap array for field f of struct type st.
func (ex *Exec) heapKey(st types.Type, f *types.Var) string {
	key := "$H." + structName(st) + "." + f.Name()
	if _, ok := ex.keyType[key]; !ok {
		ex.keyType[key] = f.Type()
	}
	ex.ensureHeap(key, sortOf(f.Type()))
	return key
}

func (ex *Exec) ensureHeap(key string, elem Sort) {
	if _, ok := ex.heapSort[key]; !ok {
		ex.heapSort[key] = arrSortOf(elem)
	}
}

// heapInit returns the initial (function entry) version of a heap array or ghost variable.
func (ex *Exec) heapInit(key string) *T {
	s, ok := ex.heapSort[key]
	if !ok {
		panic("heapInit: unknown key " + key)
	}
	name := sanitize(key) + "!0"
	if _, ok := ex.decls[name]; !ok {
		ex.declare(name, nil, s)
		ex.heapWF(key, Const(name, s), true)
	}
	return Const(name, s)
}

// heapWF states the type invariant of every cell of a fresh heap array version.
func (ex *Exec) heapWF(key string, arr *T, global bool) {
	if !strings.HasPrefix(string(arr.S), "(Array Int ") {
		return
	}
	p := Const("p", SInt)
	cell := Select(arr, p)
	var f *T = True
	if t, ok := ex.keyType[key]; ok {
		f = ex.typeFact(t, cell)
		if isRefType(t) {
			// every stored reference was allocated before the current frontier
			var frontier *T
			if global {
				frontier = ex.allocInit()
			} else {
				frontier = ex.get(ex.st, "$alloc")
			}
			f = And(f, Lt(cell, frontier))
		}
	} else if cell.S == SSlice {
		f = App("wfS", SBool, cell)
	} else if key == "$M.len" {
		f = Le(I(0), cell)
	}
	if f == True {
		return
	}
	ax := Forall([]string{"p"}, f, cell)
	if global {
		ex.declAxiom(arr.String()+"$wf", ax)
	} else {
		ex.rawFact(ax)
	}
}

// get reads an env key in a state; "$" keys default to their initial version.
func (ex *Exec) get(st *State, key string) *T {
	if t, ok := st.env[key]; ok {
		return t
	}
	if strings.HasPrefix(key, "$") {
		if key == "$alloc" {
			return ex.allocInit()
		}
		return ex.heapInit(key)
	}
	return nil
}

// ptrHeapKey returns the heap for pointers to non-struct values of the given type.
func (ex *Exec) ptrHeapKey(elem types.Type) string {
	var key string
	switch sortOf(elem) {
	case SSlice:
		key = "$P.S"
	case SBool:
		key = "$P.B"
	default:
		key = "$P.I"
	}
	ex.ensureHeap(key, sortOf(elem))
	return key
}

// typeFact returns range/well-formedness facts for a term of a Go type.
func (ex *Exec) typeFact(t types.Type, v *T) *T {
	return ex.typeFactQ(t, v)
}

func (ex *Exec) typeFactQ(t types.Type, v *T) *T {
	if t == nil {
		return True
	}
	switch u := t.Underlying().(type) {
	case *types.Basic:
		if u.Info()&types.IsString != 0 {
			return App("wfS", SBool, v)
		}
		if bits, signed, ok := intBits(t); ok {
			if signed {
				return And(Le(Neg(pow2(bits-1)), v), Lt(v, pow2(bits-1)))
			}
			return And(Le(I(0), v), Lt(v, pow2(bits)))
		}
	case *types.Slice:
		return App("wfS", SBool, v)
	case *types.Array:
		return And(App("wfS", SBool, v), Eq(SLen(v), I(u.Len())))
	case *types.Pointer, *types.Map, *types.Chan, *types.Signature, *types.Interface:
		return Le(I(0), v)
	}
	return True
}

// ---- variables ----

func (ex *Exec) keyOf(obj types.Object) string {
	if k, ok := ex.objKey[obj]; ok {
		return k
	}
	k := fmt.Sprintf("%s@%d", obj.Name(), int(obj.Pos()))
	ex.objKey[obj] = k
	ex.keyType[k] = obj.Type()
	return k
}

// zeroValue returns the zero value term for a type.
func (ex *Exec) zeroValue(t types.Type) *T {
	switch u := t.Underlying().(type) {
	case *types.Basic:
		if u.Info()&types.IsBoolean != 0 {
			return False
		}
		if u.Info()&types.IsString != 0 {
			return ex.strLit("")
		}
		return I(0)
	case *types.Slice:
		return NilSlice
	case *types.Struct:
		var fs []*T
		for i := 0; i < u.NumFields(); i++ {
			fs = append(fs, ex.zeroValue(u.Field(i).Type()))
		}
		if u.NumFields() == 0 {
			return I(0)
		}
		h := ex.mkStruct(t, fs)
		if types.TypeString(t, nil) == "time.Time" {
			ex.declare("G.tzero", []Sort{SInt}, SBool)
			ex.rawFact(App("G.tzero", SBool, h))
		}
		return h
	case *types.Array:
		s := ex.fresh("zeroarr", SSlice)
		ex.rawFact(And(App("wfS", SBool, s), Eq(SLen(s), I(u.Len())), Eq(SOff(s), I(0))))
		return s
	}
	return I(0)
}

func (ex *Exec) strLit(s string) *T {
	if t, ok := ex.strLits[s]; ok {
		return t
	}
	if s == "" {
		t := MkSlice(I(1), I(0), I(0), I(0))
		ex.strLits[s] = t
		return t
	}
	name := fmt.Sprintf("str!%d", len(ex.strLits))
	ex.declare(name, nil, SInt)
	b := Const(name, SInt)
	var fs []*T
	fs = append(fs, Lt(I(1), b))
	for i := 0; i < len(s); i++ {
		fs = append(fs, Eq(App("memB", SInt, b, I(int64(i))), I(int64(s[i]))))
	}
	ex.declAxiom(name+"$def", And(fs...))
	t := MkSlice(b, I(0), I(int64(len(s))), I(int64(len(s))))
	ex.strLits[s] = t
	return t
}

// alloc returns a fresh non-nil reference.
func (ex *Exec) alloc(what string) *T {
	r := ex.fresh("ref."+what, SInt)
	cur := ex.allocCounter()
	ex.assume(Eq(r, cur))
	ex.st.env["$alloc"] = Add(cur, I(1))
	return r
}

func (ex *Exec) allocCounter() *T {
	return ex.get(ex.st, "$alloc")
}

func (ex *Exec) allocInit() *T {
	if _, ok := ex.decls["alloc!0"]; !ok {
		ex.declare("alloc!0", nil, SInt)
		ex.declAxiom("alloc!0$lo", Lt(I(1000), Const("alloc!0", SInt)))
	}
	return Const("alloc!0", SInt)
}

// bytesEq is content equality of two slice terms with byte elements.
func bytesEq(a, b *T) *T {
	if a == b {
		return True
	}
	if a.str > b.str { // canonical argument order (the relation is symmetric)
		a, b = b, a
	}
	return App("bytesEq", SBool, a, b)
}

// valueEq compares two values of Go type t with Go's == semantics.
func (ex *Exec) valueEq(a, b *T, t types.Type) *T {
	if t == nil {
		return Eq(a, b)
	}
	switch u := t.Underlying().(type) {
	case *types.Basic:
		if u.Info()&types.IsString != 0 {
			return bytesEq(a, b)
		}
	case *types.Struct:
		var cs []*T
		for i := 0; i < u.NumFields(); i++ {
			f := u.Field(i)
			cs = append(cs, ex.valueEq(ex.vfield(a, t, f), ex.vfield(b, t, f), f.Type()))
		}
		return And(cs...)
	case *types.Array:
		return Eq(a, b)
	}
	return Eq(a, b)
}

// ---- merging ----

func (ex *Exec) merge(states []*State) *State {
	var live []*State
	for _, s := range states {
		if s != nil && !s.dead && s.pc != False {
			live = append(live, s)
		}
	}
	if len(live) == 0 {
		return &State{env: map[string]*T{}, pc: False, dead: true}
	}
	if len(live) == 1 {
		return live[0]
	}
	out := &State{env: map[string]*T{}}
	keys := map[string]int{}
	for _, s := range live {
		for k := range s.env {
			keys[k]++
		}
	}
	var ks []string
	for k, n := range keys {
		if n == len(live) || strings.HasPrefix(k, "$") {
			ks = append(ks, k)
		}
	}
	sort.Strings(ks)
	for _, k := range ks {
		first := ex.get(live[0], k)
		same := true
		for _, s := range live[1:] {
			if ex.get(s, k) != first {
				same = false
				break
			}
		}
		if same {
			out.env[k] = first
			continue
		}
		m := ex.fresh("m."+strings.SplitN(k, "@", 2)[0], first.S)
		for _, s := range live {
			ex.rawFact(Imp(s.pc, Eq(m, ex.get(s, k))))
		}
		out.env[k] = m
	}
	var pcs []*T
	for _, s := range live {
		pcs = append(pcs, s.pc)
		for k := range s.scopes {
			if out.scopes == nil {
				out.scopes = map[int]bool{}
			}
			out.scopes[k] = true
		}
	}
	or := Or(pcs...)
	if len(or.str) > 150 {
		g := ex.fresh("g", SBool)
		ex.rawFact(Eq(g, or))
		or = g
	}
	out.pc = or
	return out
}

// named replaces a large term by a fresh constant defined equal to it (keeps queries linear in program size).
func (ex *Exec) named(t *T, hint string) *T {
	if len(t.str) <= 100 {
		return t
	}
	c := ex.fresh("n."+hint, t.S)
	ex.rawFact(Eq(c, t))
	return c
}

// withPC runs f in a clone of the current state whose pc is extended by c, returning the resulting state.
func (ex *Exec) branch(base *State, c *T, f func()) *State {
	saved := ex.st
	ns := base.clone()
	ns.pc = And(base.pc, c)
	if len(ns.pc.str) > 150 {
		g := ex.fresh("pc", SBool)
		ex.rawFact(Eq(g, ns.pc))
		ns.pc = g
	}
	ex.st = ns
	initPC := ns.pc
	f()
	res := ex.st
	ex.st = saved
	ex.untouched[res] = res.pc == initPC && !res.dead
	return res
}

func (ex *Exec) topContract() *FuncContract { return ex.fc }

// viewRec: dst was assigned src[lo:hi]; appending to dst may write into the part of src's array that src still shows.
type viewRec struct {
	dst, src string
	srcExpr  ast.Expr
}

// recordView notes "dst = src[lo:hi]" (no capacity limit) for slices.
func (ex *Exec) recordView(dst ast.Expr, rhs ast.Expr) {
	se, ok := unparen(rhs).(*ast.SliceExpr)
	if !ok || se.Max != nil || se.Slice3 {
		return
	}
	if _, ok := ex.typeOf(se.X).Underlying().(*types.Slice); !ok {
		return
	}
	switch unparen(se.X).(type) {
	case *ast.Ident, *ast.SelectorExpr, *ast.IndexExpr, *ast.StarExpr:
	default:
		return
	}
	d, s := exprString(dst), exprString(se.X)
	if d == s || d == "_" {
		return
	}
	for _, v := range ex.views {
		if v.dst == d && v.src == s {
			return
		}
	}
	ex.views = append(ex.views, viewRec{d, s, se.X})
}

// checkAppendAlias emits O:append-alias obligations: an append to a variable that was bound to a view of another
// slice must not write into a cell that the other slice still shows (the engine's arrays are immutable values, so
// such a write would otherwise go unnoticed).
func (ex *Exec) checkAppendAlias(arg ast.Expr, s Val, nothingWritten *T) {
	if ex.quiet > 0 {
		return
	}
	a := exprString(unparen(arg))
	for _, v := range ex.views {
		if v.dst != a {
			continue
		}
		nerr := len(ex.errs)
		ex.quiet++
		cur := ex.eval(v.srcExpr)
		ex.quiet--
		if len(ex.errs) > nerr {
			ex.errs = ex.errs[:nerr]
			continue
		}
		w := Add(SOff(s.T), SLen(s.T))
		ex.assert("O", "append-alias["+a+" over "+v.src+"]", Or(nothingWritten, Eq(SCap(s.T), SLen(s.T)), Ne(SBase(s.T), SBase(cur.T)),
			Lt(w, SOff(cur.T)), Le(Add(SOff(cur.T), SLen(cur.T)), w)))
	}
}

// checkAppendOwner emits the O:append-shared obligation: appending to a slice that may share its
// array with the caller must not be able to write into spare capacity.
func (ex *Exec) checkAppendOwner(arg ast.Expr, s Val) {
	ex.assert("O", "append-shared["+exprString(arg)+"]", Or(Eq(SCap(s.T), SLen(s.T)), ex.locallyOwned(s.T)))
}

func (ex *Exec) locallyOwned(s *T) *T {
	// arrays created by this activation have bases recorded as fresh constants app!/make!/litarr!
	b := SBase(s)
	if strings.HasPrefix(b.Op, "app!") || strings.HasPrefix(b.Op, "make!") || strings.HasPrefix(b.Op, "litarr!") {
		return True
	}
	return False
}

// splitGoal splits a goal into independently provable conjuncts.
func splitGoal(g *T) []*T {
	switch g.Op {
	case "and":
		var out []*T
		for _, a := range g.A {
			out = append(out, splitGoal(a)...)
		}
		return out
	case "=>":
		rs := splitGoal(g.A[1])
		if len(rs) <= 1 {
			return []*T{g}
		}
		var out []*T
		for _, r := range rs {
			out = append(out, Imp(g.A[0], r))
		}
		return out
	}
	return []*T{g}
}

func unparen(e ast.Expr) ast.Expr {
	for {
		p, ok := e.(*ast.ParenExpr)
		if !ok {
			return e
		}
		e = p.X
	}
}

var knownFailing map[string]bool

// isKnownFailing: the obligation is listed as a known (unrepaired) finding in KNOWN_FINDINGS.txt.
func isKnownFailing(name string) bool {
	if knownFailing == nil {
		knownFailing = map[string]bool{}
		for _, k := range loadKnownFindings() {
			if k.kind == "known" && k.obl != "" {
				knownFailing[k.obl] = true
			}
		}
	}
	return knownFailing[name]
}
