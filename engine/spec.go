package main

import (
	"fmt"
	"go/ast"
	"go/constant"
	"go/token"
	"go/types"
	"strconv"
	"strings"
)

type stateVar struct {
	key string
	typ types.Type
}

// specCtx is the evaluation context of a specification expression.
type specCtx struct {
	ex        *Exec
	st        *State // state in which heap/variables are read
	old       *State
	entry     *State
	vars      map[string]Val      // names bound to fixed terms
	stateVars map[string]stateVar // names bound to env keys (read from sc.st)
	oldVars   map[string]Val      // old(name) for written parameters
	pos       token.Pos           // program position for scope lookup (0: none)
	pkg       *types.Package
	scopePkg  *types.Package
	depth     int
	where     string
	parent    *specCtx
	lenient   bool // check clauses: a local that does not exist at this exit makes the clause inapplicable
	missing   bool
	limited   string // name of the recursive spec function whose definitional axiom is being built
}

func (sc *specCtx) with(st *State) *specCtx {
	n := *sc
	n.st = st
	n.parent = sc.root()
	return &n
}

func (sc *specCtx) root() *specCtx {
	if sc.parent != nil {
		return sc.parent
	}
	return sc
}

func (sc *specCtx) bind(name string, v Val) *specCtx {
	n := *sc
	n.parent = sc.root()
	n.vars = make(map[string]Val, len(sc.vars)+1)
	for k, x := range sc.vars {
		n.vars[k] = x
	}
	n.vars[name] = v
	return &n
}

// specHere builds a context that resolves identifiers in the Go scope at pos.
func (ex *Exec) specHere(pos token.Pos) *specCtx {
	sc := &specCtx{ex: ex, st: ex.st, old: ex.oldState, vars: map[string]Val{}, stateVars: map[string]stateVar{}, pos: pos, pkg: ex.pkg.Types}
	for k, v := range ex.paramVals {
		sc.vars["old_"+k] = v
	}
	// indices of the range loops currently executing
	for k := range ex.st.env {
		if strings.HasPrefix(k, "$ri") {
			if j := strings.Index(k, "."); j > 3 {
				sc.stateVars["ri"+k[3:j]] = stateVar{k, typInt}
				if x, ok := ex.rangeOps[k]; ok {
					sc.vars["rx"+k[3:j]] = x
				}
			}
		}
	}
	if ex.fc != nil && len(ex.code) <= 1 {
		for _, gn := range ex.fc.GhostNames {
			if v, ok := ex.paramVals[gn]; ok {
				sc.vars[gn] = v
			}
		}
	}
	return sc
}

func (ex *Exec) specBool(sc *specCtx, c *Clause) *T {
	sc.where = c.Line
	v, _ := ex.specEval(sc, c.Expr)
	if v.T.S != SBool {
		ex.errorf("%s: spec clause %q is not boolean", c.Line, c.Text)
		return True
	}
	return v.T
}

// specTry evaluates a clause; when the clause names something that no longer exists in the code (a local variable, a
// field, a builder) it returns ok=false instead of recording an engine error: the caller turns an obligation-bearing
// clause into a failed obligation ("not evaluable") and drops a clause that would only have been assumed.
func (ex *Exec) specTry(sc *specCtx, c *Clause) (*T, bool) {
	nerr := len(ex.errs)
	g := ex.specBool(sc, c)
	if len(ex.errs) == nerr {
		return g, true
	}
	var kept []string
	drift := false
	for _, e := range ex.errs[nerr:] {
		if strings.Contains(e, "unknown identifier") || strings.Contains(e, "no field ") || strings.Contains(e, "has no value") ||
			strings.Contains(e, "not a known builder") || strings.Contains(e, "not available") || strings.Contains(e, "index of non-slice") || strings.Contains(e, "of non-struct") || strings.Contains(e, "comparison of different sorts") || strings.Contains(e, "is not boolean") {
			drift = true
			ex.warnings["contract clause not evaluable on this code: "+e] = true
			continue
		}
		kept = append(kept, e)
	}
	ex.errs = append(ex.errs[:nerr], kept...)
	if drift && len(kept) == 0 {
		return False, false
	}
	return g, len(kept) == 0
}

func (ex *Exec) specErr(sc *specCtx, format string, args ...any) {
	if r := sc.root(); r.lenient && r.missing {
		return // the clause is already known not to apply at this exit
	}
	ex.errs = append(ex.errs, sc.where+": spec: "+fmt.Sprintf(format, args...))
}

var typInt = types.Typ[types.Int]
var typBool = types.Typ[types.Bool]

// lookupType resolves a Go type expression written in a contract.
func (ex *Exec) lookupType(pkg *types.Package, s string) types.Type {
	s = strings.TrimSpace(s)
	if s == "" {
		return typInt
	}
	if s == "any" {
		return types.Universe.Lookup("any").Type()
	}
	tv, err := types.Eval(ex.prog.fset, pkg, token.NoPos, s)
	if err != nil {
		// try via imports of the package (qualified names need file scope): manual resolution of pkg.Name
		if i := strings.LastIndex(s, "."); i > 0 {
			prefix := ""
			rest := s
			for strings.HasPrefix(rest, "*") || strings.HasPrefix(rest, "[]") {
				if rest[0] == '*' {
					prefix += "*"
					rest = rest[1:]
				} else {
					prefix += "[]"
					rest = rest[2:]
				}
			}
			if j := strings.Index(rest, "."); j > 0 {
				pn, tn := rest[:j], rest[j+1:]
				var cands []*types.Package
				cands = append(cands, pkg.Imports()...)
				for _, p := range ex.prog.pkgs {
					if p.Types != nil && p.Types.Name() == pn {
						cands = append(cands, p.Types)
					}
				}
				for _, imp := range cands {
					if imp.Name() == pn {
						if o := imp.Scope().Lookup(tn); o != nil {
							var t types.Type = o.Type()
							for k := len(prefix); k > 0; {
								if strings.HasSuffix(prefix[:k], "[]") {
									t = types.NewSlice(t)
									k -= 2
								} else {
									t = types.NewPointer(t)
									k--
								}
							}
							return t
						}
					}
				}
			}
		}
		ex.errs = append(ex.errs, fmt.Sprintf("cannot resolve type %q in contract: %v", s, err))
		return typInt
	}
	return tv.Type
}

func (ex *Exec) specEval(sc *specCtx, e ast.Expr) (Val, bool) {
	switch e := e.(type) {
	case *ast.ParenExpr:
		return ex.specEval(sc, e.X)
	case *ast.CompositeLit:
		// T{f1, f2, ...} or T{name: v, ...} for a struct type T
		t := ex.lookupType(sc.pkgOr(ex), exprString(e.Type))
		st := structOf(t)
		if t == nil || st == nil || isPointer(t) {
			ex.specErr(sc, "composite literal of non-struct type %s", exprString(e.Type))
			return Val{I(0), typInt}, false
		}
		fs := make([]*T, st.NumFields())
		for i := 0; i < st.NumFields(); i++ {
			fs[i] = ex.zeroValue(st.Field(i).Type())
		}
		for i, el := range e.Elts {
			if kv, ok := el.(*ast.KeyValueExpr); ok {
				name := exprString(kv.Key)
				for j := 0; j < st.NumFields(); j++ {
					if st.Field(j).Name() == name {
						v, _ := ex.specEval(sc, kv.Value)
						fs[j] = ex.coerceSpec(v, st.Field(j).Type()).T
					}
				}
				continue
			}
			if i < len(fs) {
				v, _ := ex.specEval(sc, el)
				fs[i] = ex.coerceSpec(v, st.Field(i).Type()).T
			}
		}
		return Val{ex.mkStruct(t, fs), t}, true
	case *ast.BasicLit:
		switch e.Kind {
		case token.INT:
			cv := constant.MakeFromLiteral(e.Value, token.INT, 0)
			return Val{constToTerm(cv, typInt, ex), typInt}, true
		case token.STRING:
			s, _ := strconv.Unquote(e.Value)
			return Val{ex.strLit(s), types.Typ[types.String]}, true
		case token.CHAR:
			cv := constant.MakeFromLiteral(e.Value, token.CHAR, 0)
			return Val{constToTerm(cv, typInt, ex), typInt}, true
		}
	case *ast.Ident:
		return ex.specIdent(sc, e)
	case *ast.UnaryExpr:
		x, _ := ex.specEval(sc, e.X)
		switch e.Op {
		case token.NOT:
			return Val{Not(x.T), typBool}, true
		case token.SUB:
			return Val{Neg(x.T), x.Typ}, true
		}
	case *ast.StarExpr:
		p, _ := ex.specEval(sc, e.X)
		pt, ok := p.Typ.Underlying().(*types.Pointer)
		if !ok {
			ex.specErr(sc, "deref of non-pointer %s", exprString(e.X))
			return Val{I(0), typInt}, false
		}
		elem := pt.Elem()
		if st := structOf(elem); st != nil {
			ex.specErr(sc, "whole-struct deref unsupported in specs")
		}
		return Val{Select(ex.get(sc.st, ex.ptrHeapKey(elem)), p.T), elem}, true
	case *ast.BinaryExpr:
		return ex.specBinary(sc, e)
	case *ast.SelectorExpr:
		// package-qualified name?
		if id, ok := e.X.(*ast.Ident); ok {
			if _, bound := sc.vars[id.Name]; !bound {
				if _, bound := sc.stateVars[id.Name]; !bound && !ex.specResolvesLocal(sc, id.Name) {
					if p := ex.findImport(sc, id.Name); p != nil {
						obj := p.Scope().Lookup(e.Sel.Name)
						switch o := obj.(type) {
						case *types.Var:
							return Val{ex.globalConst(o), o.Type()}, true
						case *types.Const:
							return Val{constToTerm(o.Val(), o.Type(), ex), o.Type()}, true
						}
						ex.specErr(sc, "unknown qualified name %s", exprString(e))
						return Val{I(0), typInt}, false
					}
				}
			}
		}
		if id, ok := e.X.(*ast.Ident); ok {
			if o := ex.specSRVar(sc, id.Name); o != nil {
				st := structOf(o.Type())
				for i := 0; i < st.NumFields(); i++ {
					if st.Field(i).Name() == e.Sel.Name {
						t := sc.st.env[ex.srKey(o, st.Field(i))]
						if t == nil {
							ex.specErr(sc, "field %s.%s has no value in this state", id.Name, e.Sel.Name)
							return Val{ex.fresh("unk", sortOf(st.Field(i).Type())), st.Field(i).Type()}, false
						}
						return Val{t, st.Field(i).Type()}, true
					}
				}
			}
		}
		x, _ := ex.specEval(sc, e.X)
		return ex.specField(sc, x, e.Sel.Name)
	case *ast.IndexExpr:
		x, _ := ex.specEval(sc, e.X)
		i, _ := ex.specEval(sc, e.Index)
		if mt, ok := x.Typ.Underlying().(*types.Map); ok {
			v, _ := ex.mapGetIn(sc.st, x, mt, i)
			return Val{v, mt.Elem()}, true
		}
		elem := elemTypeOf(x.Typ)
		if elem == nil {
			ex.specErr(sc, "index of non-slice %s (%v)", exprString(e.X), x.Typ)
			return Val{I(0), typInt}, false
		}
		return Val{ex.elemAt(x.T, elem, i.T), elem}, true
	case *ast.SliceExpr:
		x, _ := ex.specEval(sc, e.X)
		lo := I(0)
		if e.Low != nil {
			v, _ := ex.specEval(sc, e.Low)
			lo = v.T
		}
		hi := SLen(x.T)
		if e.High != nil {
			v, _ := ex.specEval(sc, e.High)
			hi = v.T
		}
		return Val{MkSlice(SBase(x.T), Add(SOff(x.T), lo), Sub(hi, lo), Sub(SCap(x.T), lo)), x.Typ}, true
	case *ast.CallExpr:
		return ex.specCall(sc, e)
	}
	ex.specErr(sc, "unsupported spec expression %s (%T)", exprString(e), e)
	return Val{I(0), typInt}, false
}

func (ex *Exec) findImport(sc *specCtx, name string) *types.Package {
	pk := sc.pkg
	if pk == nil {
		pk = ex.pkg.Types
	}
	for _, imp := range pk.Imports() {
		if imp.Name() == name {
			return imp
		}
	}
	// well-known packages even when not imported by the package
	for _, p := range ex.prog.pkgs {
		for _, imp := range p.Types.Imports() {
			if imp.Name() == name {
				return imp
			}
		}
	}
	return nil
}

func (ex *Exec) specResolvesLocal(sc *specCtx, name string) bool {
	if sc.pos == token.NoPos {
		return false
	}
	scope := ex.pkg.Types.Scope().Innermost(sc.pos)
	if scope == nil {
		return false
	}
	_, obj := scope.LookupParent(name, sc.pos)
	if obj == nil {
		return false
	}
	_, isPkg := obj.(*types.PkgName)
	return !isPkg
}

func (ex *Exec) specIdent(sc *specCtx, e *ast.Ident) (Val, bool) {
	name := e.Name
	switch name {
	case "true":
		return Val{True, typBool}, true
	case "false":
		return Val{False, typBool}, true
	case "nil":
		return Val{I(0), types.Typ[types.UntypedNil]}, true
	}
	if v, ok := sc.vars[name]; ok {
		return v, true
	}
	if t, ok := sc.st.env["$cap."+name]; ok {
		return Val{t, ex.keyType["$cap."+name]}, true
	}
	if sv, ok := sc.stateVars[name]; ok {
		t := ex.get(sc.st, sv.key)
		if t == nil {
			ex.specErr(sc, "variable %s not available in this state", name)
			return Val{I(0), sv.typ}, false
		}
		return Val{t, sv.typ}, true
	}
	// a variable that was renamed since the contract was written (same position and type)
	if len(ex.renamed[name]) > 0 {
		pos := sc.pos
		if sc.root().lenient && sc.st != nil && sc.st.retPos != token.NoPos {
			pos = sc.st.retPos
		}
		if v := ex.renamedVar(name, pos); v != nil {
			return ex.specLoadVar(sc, v)
		}
	}
	// program scope
	if sc.pos != token.NoPos {
		if scope := ex.pkg.Types.Scope().Innermost(sc.pos); scope != nil {
			if _, obj := scope.LookupParent(name, sc.pos); obj != nil {
				if v, ok := obj.(*types.Var); ok && !(v.Pkg() != nil && v.Parent() == v.Pkg().Scope()) {
					return ex.specLoadVar(sc, v)
				}
			}
		}
	}
	// check clauses: a local that is in scope at the return statement of the exit being checked
	if sc.root().lenient && sc.st != nil && sc.st.retPos != token.NoPos {
		if scope := ex.pkg.Types.Scope().Innermost(sc.st.retPos); scope != nil {
			if _, obj := scope.LookupParent(name, sc.st.retPos); obj != nil {
				if v, ok := obj.(*types.Var); ok && !(v.Pkg() != nil && v.Parent() == v.Pkg().Scope()) {
					return ex.specLoadVar(sc, v)
				}
			}
		}
	}
	// package level
	pk := sc.pkg
	if pk == nil {
		pk = ex.pkg.Types
	}
	if obj := pk.Scope().Lookup(name); obj != nil {
		switch o := obj.(type) {
		case *types.Var:
			return Val{ex.globalConst(o), o.Type()}, true
		case *types.Const:
			return Val{constToTerm(o.Val(), o.Type(), ex), o.Type()}, true
		}
	}
	if sc.root().lenient && sc.st != nil && sc.st.retPos != token.NoPos && ex.isLocalName(name) {
		// a local of the function that is not in scope at this exit: the clause does not apply here
		sc.root().missing = true
		return Val{I(0), typInt}, false
	}
	if sc.lenient && ex.fc != nil {
		for _, cp := range ex.fc.Captures {
			if cp.Name == name {
				sc.root().missing = true
				return Val{I(0), typInt}, false
			}
		}
	}
	ex.specErr(sc, "unknown identifier %s", name)
	return Val{I(0), typInt}, false
}

// specSRVar resolves a name to a scalar-replaced local struct variable visible at the spec position.
func (ex *Exec) specSRVar(sc *specCtx, name string) *types.Var {
	if _, ok := sc.vars[name]; ok {
		return nil
	}
	if sc.pos == token.NoPos {
		return nil
	}
	scope := ex.pkg.Types.Scope().Innermost(sc.pos)
	if scope == nil {
		return nil
	}
	_, obj := scope.LookupParent(name, sc.pos)
	v, ok := obj.(*types.Var)
	if !ok || !ex.isSR(v) {
		return nil
	}
	return v
}

func (ex *Exec) specLoadVar(sc *specCtx, v *types.Var) (Val, bool) {
	key := ex.keyOf(v)
	if ex.isSR(v) {
		return Val{ex.srAssemble(sc.st, v), v.Type()}, true
	}
	if ex.boxed[v] {
		ref := sc.st.env[key]
		if ref == nil {
			ex.specErr(sc, "boxed variable %s not available", v.Name())
			return Val{I(0), v.Type()}, false
		}
		if st := structOf(v.Type()); st != nil && !isPointer(v.Type()) {
			// value struct stored in the heap: expose as reference-typed value so that field access reads the heap
			return Val{ref, types.NewPointer(v.Type())}, true
		}
		return Val{Select(ex.get(sc.st, ex.ptrHeapKey(v.Type())), ref), v.Type()}, true
	}
	t := sc.st.env[key]
	if pv, ok := ex.paramObjs[v]; ok && t == nil && sc.root() != sc {
		// old(...)/entry(...) of a parameter: its value at entry, whatever was assigned to it since
		return pv, true
	}
	if t == nil && sc.root() != sc {
		// old(...)/entry(...) of an expression naming a local that did not exist yet: the local's current value, the old heap
		t = sc.root().st.env[key]
	}
	if t == nil {
		if pv, ok := ex.paramVals[v.Name()]; ok && len(ex.code) <= 1 {
			return pv, true
		}
		if sc.lenient {
			sc.root().missing = true
			return Val{ex.fresh("unk", sortOf(v.Type())), v.Type()}, false
		}
		ex.specErr(sc, "variable %s has no value in this state", v.Name())
		return Val{ex.fresh("unk", sortOf(v.Type())), v.Type()}, false
	}
	return Val{t, v.Type()}, true
}

func (ex *Exec) specField(sc *specCtx, x Val, name string) (Val, bool) {
	st := structOf(x.Typ)
	if st == nil {
		ex.specErr(sc, "field %s of non-struct type %v", name, x.Typ)
		return Val{I(0), typInt}, false
	}
	for i := 0; i < st.NumFields(); i++ {
		f := st.Field(i)
		if f.Name() == name {
			if isPointer(x.Typ) {
				pt := x.Typ.Underlying().(*types.Pointer).Elem()
				return Val{Select(ex.get(sc.st, ex.heapKey(pt, f)), x.T), f.Type()}, true
			}
			return Val{ex.vfield(x.T, x.Typ, f), f.Type()}, true
		}
	}
	// promoted through embedded fields (one level)
	for i := 0; i < st.NumFields(); i++ {
		f := st.Field(i)
		if f.Embedded() {
			if es := structOf(f.Type()); es != nil {
				for j := 0; j < es.NumFields(); j++ {
					if es.Field(j).Name() == name {
						inner, _ := ex.specField(sc, x, f.Name())
						return ex.specField(sc, inner, name)
					}
				}
			}
		}
	}
	ex.specErr(sc, "no field %s in %v", name, x.Typ)
	return Val{I(0), typInt}, false
}

func isUntypedNil(v Val) bool {
	b, ok := v.Typ.(*types.Basic)
	return ok && b.Kind() == types.UntypedNil
}

func (ex *Exec) specBinary(sc *specCtx, e *ast.BinaryExpr) (Val, bool) {
	a, _ := ex.specEval(sc, e.X)
	b, _ := ex.specEval(sc, e.Y)
	if isUntypedNil(a) && !isUntypedNil(b) {
		a = ex.coerce(a, b.Typ)
	}
	if isUntypedNil(b) && !isUntypedNil(a) {
		b = ex.coerce(b, a.Typ)
	}
	switch e.Op {
	case token.LAND:
		return Val{And(a.T, b.T), typBool}, true
	case token.LOR:
		return Val{Or(a.T, b.T), typBool}, true
	case token.EQL, token.NEQ:
		var r *T
		if a.T.S != b.T.S {
			ex.specErr(sc, "comparison of different sorts in %s", exprString(e))
			return Val{True, typBool}, false
		}
		switch {
		case a.T.S == SSlice && (isString(a.Typ) || isString(b.Typ)):
			r = bytesEq(a.T, b.T)
		case a.T.S == SSlice && (a.T == NilSlice || b.T == NilSlice):
			r = Eq(SBase(a.T), SBase(b.T))
		case a.T.S == SSlice:
			r = Eq(a.T, b.T)
		default:
			t := a.Typ
			if t == nil || isUntypedNil(a) {
				t = b.Typ
			}
			if _, isStruct := t.Underlying().(*types.Struct); isStruct {
				r = ex.valueEq(a.T, b.T, t)
			} else {
				r = Eq(a.T, b.T)
			}
		}
		if e.Op == token.NEQ {
			r = Not(r)
		}
		return Val{r, typBool}, true
	case token.LSS:
		return Val{Lt(a.T, b.T), typBool}, true
	case token.LEQ:
		return Val{Le(a.T, b.T), typBool}, true
	case token.GTR:
		return Val{Gt(a.T, b.T), typBool}, true
	case token.GEQ:
		return Val{Ge(a.T, b.T), typBool}, true
	case token.ADD:
		return Val{Add(a.T, b.T), typInt}, true
	case token.SUB:
		return Val{Sub(a.T, b.T), typInt}, true
	case token.MUL:
		return Val{Mul(a.T, b.T), typInt}, true
	case token.QUO:
		return Val{Div(a.T, b.T), typInt}, true
	case token.REM:
		return Val{Mod(a.T, b.T), typInt}, true
	}
	ex.specErr(sc, "unsupported operator %s in spec", e.Op)
	return Val{I(0), typInt}, false
}

func (ex *Exec) specArgs(sc *specCtx, args []ast.Expr) []Val {
	var out []Val
	for _, a := range args {
		v, _ := ex.specEval(sc, a)
		out = append(out, v)
	}
	return out
}

var specConv = map[string]types.Type{
	"int": types.Typ[types.Int], "int64": types.Typ[types.Int64], "int32": types.Typ[types.Int32],
	"uint8": types.Typ[types.Uint8], "byte": types.Typ[types.Uint8], "uint16": types.Typ[types.Uint16],
	"uint32": types.Typ[types.Uint32], "uint64": types.Typ[types.Uint64], "uint": types.Typ[types.Uint],
	"string": types.Typ[types.String],
}

func (ex *Exec) specCall(sc *specCtx, e *ast.CallExpr) (Val, bool) {
	fname := ""
	switch f := e.Fun.(type) {
	case *ast.Ident:
		fname = f.Name
	case *ast.SelectorExpr:
		fname = exprString(f)
	default:
		ex.specErr(sc, "unsupported call in spec: %s", exprString(e))
		return Val{I(0), typInt}, false
	}
	need := func(n int) bool {
		if len(e.Args) != n {
			ex.specErr(sc, "%s expects %d arguments", fname, n)
			return false
		}
		return true
	}
	switch fname {
	case "len":
		if !need(1) {
			break
		}
		x, _ := ex.specEval(sc, e.Args[0])
		if mt, ok := x.Typ.Underlying().(*types.Map); ok {
			return Val{ex.mapLenIn(sc.st, x, mt), typInt}, true
		}
		return Val{SLen(x.T), typInt}, true
	case "cap":
		x, _ := ex.specEval(sc, e.Args[0])
		return Val{SCap(x.T), typInt}, true
	case "old":
		if id, ok := e.Args[0].(*ast.Ident); ok && sc.oldVars != nil {
			if v, ok := sc.oldVars[id.Name]; ok {
				return v, true
			}
		}
		if sc.old == nil {
			ex.specErr(sc, "old() not available here")
			return ex.specEval(sc, e.Args[0])
		}
		return ex.specEval(sc.with(sc.old), e.Args[0])
	case "entry":
		if sc.entry == nil {
			ex.specErr(sc, "entry() not available here")
			return ex.specEval(sc, e.Args[0])
		}
		return ex.specEval(sc.with(sc.entry), e.Args[0])
	case "implies":
		a := ex.specArgs(sc, e.Args)
		return Val{Imp(a[0].T, a[1].T), typBool}, true
	case "iff":
		a := ex.specArgs(sc, e.Args)
		return Val{Eq(a[0].T, a[1].T), typBool}, true
	case "ite":
		a := ex.specArgs(sc, e.Args)
		return Val{Ite(a[0].T, a[1].T, a[2].T), a[1].Typ}, true
	case "forall", "exists":
		// forall(i, lo, hi, P) or forall(i, P)
		id, ok := e.Args[0].(*ast.Ident)
		if !ok {
			ex.specErr(sc, "%s: first argument must be an identifier", fname)
			return Val{True, typBool}, false
		}
		sc.depth++
		bv := fmt.Sprintf("%s_%d", id.Name, sc.depth)
		ex.boundNames = append(ex.boundNames, bv)
		inner := sc.bind(id.Name, Val{Const(bv, SInt), typInt})
		var body *T
		var pats []*T
		// optional trailing trig(e1, e2, ...) argument: an explicit multi-pattern
		if n := len(e.Args); n >= 3 {
			if tc, ok := e.Args[n-1].(*ast.CallExpr); ok {
				if tid, ok := tc.Fun.(*ast.Ident); ok && tid.Name == "trig" {
					for _, ta := range tc.Args {
						tv, _ := ex.specEval(inner, ta)
						pats = append(pats, tv.T)
					}
					e = &ast.CallExpr{Fun: e.Fun, Args: e.Args[:n-1]}
				}
			}
		}
		if len(e.Args) == 4 {
			lo, _ := ex.specEval(inner, e.Args[1])
			hi, _ := ex.specEval(inner, e.Args[2])
			p, _ := ex.specEval(inner, e.Args[3])
			rng := And(Le(lo.T, Const(bv, SInt)), Lt(Const(bv, SInt), hi.T))
			if fname == "forall" {
				body = Imp(rng, p.T)
			} else {
				body = And(rng, p.T)
			}
		} else {
			p, _ := ex.specEval(inner, e.Args[len(e.Args)-1])
			body = p.T
		}
		sc.depth--
		ex.boundNames = ex.boundNames[:len(ex.boundNames)-1]
		if fname == "forall" {
			if len(pats) > 0 {
				return Val{ForallMulti([]string{bv}, body, pats), typBool}, true
			}
			return Val{Forall([]string{bv}, body), typBool}, true
		}
		return Val{Exists([]string{bv}, body), typBool}, true
	case "is":
		a := ex.specArgs(sc, e.Args)
		return Val{ex.errIs(a[0].T, a[1].T), typBool}, true
	case "cid":
		a := ex.specArgs(sc, e.Args)
		return Val{App("cid", SInt, a[0].T), typInt}, true
	case "fmtId":
		// fmtId("format", args...): content identity of fmt.Sprintf(format, args...)
		format, ok := "", false
		if bl, isLit := e.Args[0].(*ast.BasicLit); isLit && bl.Kind == token.STRING {
			if u, err := strconv.Unquote(bl.Value); err == nil {
				format, ok = u, true
			}
		}
		if !ok {
			ex.specErr(sc, "fmtId needs a string literal format")
			return Val{I(0), typInt}, false
		}
		a := ex.specArgs(sc, e.Args[1:])
		return Val{ex.fmtIdTerm(format, a), typInt}, true
	case "as":
		// as(x, "T"): x viewed as a value of type T (a pointer stored in an interface is the pointer itself)
		if len(e.Args) == 2 {
			if bl, ok := e.Args[1].(*ast.BasicLit); ok && bl.Kind == token.STRING {
				tn, _ := strconv.Unquote(bl.Value)
				t := ex.lookupType(sc.pkgOr(ex), tn)
				x, _ := ex.specEval(sc, e.Args[0])
				if t != nil {
					return Val{x.T, t}, true
				}
			}
		}
		ex.specErr(sc, "as(x, \"Type\") needs a known type")
		return Val{I(0), typInt}, false
	case "errIs":
		a := ex.specArgs(sc, e.Args)
		return Val{And(Ne(a[0].T, I(0)), ex.errIs(a[0].T, a[1].T)), typBool}, true
	case "cat":
		a := ex.specArgs(sc, e.Args)
		return Val{App("catS", SSlice, a[0].T, a[1].T), types.NewSlice(types.Typ[types.Uint8])}, true
	case "liberr":
		a := ex.specArgs(sc, e.Args)
		return Val{And(Lt(I(0), a[0].T), ex.notRepoSentinel(a[0].T)), typBool}, true
	case "bytesEq":
		a := ex.specArgs(sc, e.Args)
		return Val{bytesEq(a[0].T, a[1].T), typBool}, true
	case "has":
		a := ex.specArgs(sc, e.Args)
		mt, ok := a[0].Typ.Underlying().(*types.Map)
		if !ok {
			ex.specErr(sc, "has: first argument is not a map")
			return Val{True, typBool}, false
		}
		_, h := ex.mapGetIn(sc.st, a[0], mt, a[1])
		return Val{h, typBool}, true
	case "slicesEq":
		a := ex.specArgs(sc, e.Args)
		return Val{ex.slicesEqualTerm(a[0].T, a[1].T, elemTypeOf(a[0].Typ)), typBool}, true
	case "isnil":
		a := ex.specArgs(sc, e.Args)
		if a[0].T.S == SSlice {
			return Val{Eq(SBase(a[0].T), I(0)), typBool}, true
		}
		return Val{Eq(a[0].T, I(0)), typBool}, true
	case "window":
		a := ex.specArgs(sc, e.Args)
		return Val{MkSlice(SBase(a[0].T), Add(SOff(a[0].T), a[1].T), a[2].T, a[2].T), a[0].Typ}, true
	case "mem":
		a := ex.specArgs(sc, e.Args)
		elem := elemTypeOf(a[0].Typ)
		return Val{ex.memRead(elem, SBase(a[0].T), a[1].T), elem}, true
	case "sameArray":
		a := ex.specArgs(sc, e.Args)
		return Val{Eq(SBase(a[0].T), SBase(a[1].T)), typBool}, true
	case "offset":
		a := ex.specArgs(sc, e.Args)
		return Val{SOff(a[0].T), typInt}, true
	case "dyntype":
		a := ex.specArgs(sc, e.Args)
		return Val{App("dyntype", SInt, a[0].T), typInt}, true
	case "typeid":
		// typeid("net.IP")
		if lit, ok := e.Args[0].(*ast.BasicLit); ok {
			s, _ := strconv.Unquote(lit.Value)
			return Val{typeID(ex.lookupType(sc.pkgOr(ex), s)), typInt}, true
		}
	case "payloadS":
		a := ex.specArgs(sc, e.Args)
		return Val{App("ifaceS", SSlice, a[0].T), types.NewSlice(types.Typ[types.Uint8])}, true
	case "allocated":
		// allocated(p): p was allocated before the current allocation frontier
		a := ex.specArgs(sc, e.Args)
		return Val{Lt(a[0].T, ex.get(sc.st, "$alloc")), typBool}, true
	case "fresh":
		a := ex.specArgs(sc, e.Args)
		if sc.old == nil {
			ex.specErr(sc, "fresh() needs an old state")
			break
		}
		return Val{And(Le(ex.get(sc.old, "$alloc"), a[0].T), Lt(a[0].T, ex.get(sc.st, "$alloc"))), typBool}, true
	case "min":
		a := ex.specArgs(sc, e.Args)
		return Val{Ite(Le(a[0].T, a[1].T), a[0].T, a[1].T), typInt}, true
	case "max":
		a := ex.specArgs(sc, e.Args)
		return Val{Ite(Le(a[0].T, a[1].T), a[1].T, a[0].T), typInt}, true
	}
	if t, ok := specConv[fname]; ok && len(e.Args) == 1 {
		x, _ := ex.specEval(sc, e.Args[0])
		if bits, signed, isInt := intBits(t); isInt && !signed && bits < 64 {
			return Val{Mod(x.T, pow2(bits)), t}, true
		}
		return Val{x.T, t}, true
	}
	// builder buffer access: bbuf(b)
	if fname == "bbuf" || fname == "berr" {
		a := ex.specArgs(sc, e.Args)
		id := ex.builderID(a[0].T)
		if id == "" {
			ex.specErr(sc, "%s: argument is not a known builder", fname)
			return Val{I(0), typInt}, false
		}
		if fname == "bbuf" {
			return Val{ex.builderBuf(sc.st, id), types.NewSlice(types.Typ[types.Uint8])}, true
		}
		return Val{ex.get(sc.st, "$bld."+id+".err"), typBool}, true
	}
	// ghost state / functions
	if gd, ok := ex.prog.contracts.Ghosts[fname]; ok {
		a := ex.specArgs(sc, e.Args)
		rt := ex.lookupType(ex.pkgTypes(gd.Pkg), gd.ResType)
		if gd.Fn {
			var sorts []Sort
			var ts []*T
			for _, v := range a {
				sorts = append(sorts, v.T.S)
				ts = append(ts, v.T)
			}
			name := "G." + fname
			if _, declared := ex.decls[name]; !declared {
				ex.declare(name, sorts, sortOf(rt))
				if isByte(rt) && len(sorts) == 2 {
					x, y := Const("x", SInt), Const("y", SInt)
					ap := App(name, SInt, x, y)
					ex.declAxiom(name+"$range", Forall([]string{"x", "y"}, And(Le(I(0), ap), Lt(ap, I(256))), ap))
				}
			}
			return Val{App(name, sortOf(rt), ts...), rt}, true
		}
		key := "$G." + fname
		ex.ensureHeap(key, sortOf(rt))
		return Val{Select(ex.get(sc.st, key), a[0].T), rt}, true
	}
	// pure functions
	if pd, ok := ex.prog.contracts.Pures[fname]; ok {
		if sc.limited == fname {
			// recursive occurrence inside the function's own definitional axiom: the limited copy (no further unfolding)
			args := ex.specArgs(sc, e.Args)
			pk := ex.pkgTypes(pd.Pkg)
			rt := ex.lookupType(pk, pd.ResType)
			var ts []*T
			for i := range pd.ParamName {
				pt := ex.lookupType(pk, pd.ParamType[i])
				ts = append(ts, ex.coerceSpec(args[i], pt).T)
			}
			return Val{App("P."+pd.Name+"$lim", sortOf(rt), ts...), rt}, true
		}
		return ex.specPure(sc, pd, e)
	}
	ex.specErr(sc, "unknown spec function %s", fname)
	return Val{I(0), typInt}, false
}

func (sc *specCtx) pkgOr(ex *Exec) *types.Package {
	if sc.pkg != nil {
		return sc.pkg
	}
	return ex.pkg.Types
}

func (ex *Exec) pkgTypes(path string) *types.Package {
	if p, ok := ex.prog.pkgs[path]; ok {
		return p.Types
	}
	return ex.pkg.Types
}

// specPure expands a pure function: macros are evaluated in the caller's state; purerec become SMT functions.
func (ex *Exec) specPure(sc *specCtx, pd *PureDef, e *ast.CallExpr) (Val, bool) {
	args := ex.specArgs(sc, e.Args)
	if len(args) != len(pd.ParamName) {
		ex.specErr(sc, "%s expects %d arguments", pd.Name, len(pd.ParamName))
		return Val{I(0), typInt}, false
	}
	pk := ex.pkgTypes(pd.Pkg)
	rt := ex.lookupType(pk, pd.ResType)
	if pd.ResType == "bool" {
		rt = typBool
	}
	if !pd.Rec && !pd.Opaque {
		if sc.depth > 40 {
			ex.specErr(sc, "pure function expansion too deep (%s)", pd.Name)
			return Val{I(0), rt}, false
		}
		inner := &specCtx{ex: ex, st: sc.st, old: sc.old, entry: sc.entry, vars: map[string]Val{}, stateVars: map[string]stateVar{}, pkg: pk, depth: sc.depth + 1, where: pd.Line}
		for i, n := range pd.ParamName {
			pt := ex.lookupType(pk, pd.ParamType[i])
			inner.vars[n] = ex.coerceSpec(args[i], pt)
		}
		v, ok := ex.specEval(inner, pd.Body.Expr)
		v.Typ = rt
		return v, ok
	}
	// SMT function
	name := "P." + pd.Name
	var sorts []Sort
	var ts []*T
	for i := range pd.ParamName {
		pt := ex.lookupType(pk, pd.ParamType[i])
		sorts = append(sorts, sortOf(pt))
		ts = append(ts, ex.coerceSpec(args[i], pt).T)
	}
	if _, ok := ex.decls[name]; !ok {
		ex.declare(name, sorts, sortOf(rt))
		if pd.Rec {
			// definitional axiom
			inner := &specCtx{ex: ex, st: sc.st, vars: map[string]Val{}, stateVars: map[string]stateVar{}, pkg: pk, depth: 20, where: pd.Line, limited: pd.Name}
			ex.declare(name+"$lim", sorts, sortOf(rt))
			var bvs []string
			var bts []*T
			for i, n := range pd.ParamName {
				pt := ex.lookupType(pk, pd.ParamType[i])
				if sortOf(pt) == SSlice {
					bv := "s_" + n
					bvs = append(bvs, bv+":Slice")
					t := Const(bv, SSlice)
					inner.vars[n] = Val{t, pt}
					bts = append(bts, t)
				} else if sortOf(pt) == SBool {
					bv := "o_" + n
					bvs = append(bvs, bv+":Bool")
					inner.vars[n] = Val{Const(bv, SBool), pt}
					bts = append(bts, Const(bv, SBool))
				} else {
					bv := "a_" + n
					bvs = append(bvs, bv)
					inner.vars[n] = Val{Const(bv, SInt), pt}
					bts = append(bts, Const(bv, SInt))
				}
			}
			body, _ := ex.specEval(inner, pd.Body.Expr)
			app := App(name, sortOf(rt), bts...)
			// "limited function" encoding: one unfolding per term that names the function itself
			ex.declAxiom(name+"$def", Forall(bvs, And(Eq(app, body.T), Eq(App(name+"$lim", sortOf(rt), bts...), app)), app))
		}
	}
	return Val{App(name, sortOf(rt), ts...), rt}, true
}

func (ex *Exec) coerceSpec(v Val, t types.Type) Val {
	if isUntypedNil(v) {
		return ex.coerce(v, t)
	}
	// a boxed struct exposed as pointer is fine for pointer params
	return Val{v.T, pickType(v.Typ, t)}
}

func pickType(have, want types.Type) types.Type {
	if want == nil {
		return have
	}
	if have != nil && isPointer(have) && !isPointer(want) && structOf(want) != nil {
		return have
	}
	return want
}

// isLocalName reports whether some local variable of the function under verification has this name.
func (ex *Exec) isLocalName(name string) bool {
	if ex.fn == nil {
		return false
	}
	decl := ex.prog.funcDecls[ex.fn]
	pkg := ex.prog.funcPkg[ex.fn]
	if decl == nil || pkg == nil || decl.Body == nil {
		return false
	}
	found := false
	ast.Inspect(decl.Body, func(n ast.Node) bool {
		if id, ok := n.(*ast.Ident); ok && id.Name == name {
			if _, isVar := pkg.TypesInfo.Defs[id].(*types.Var); isVar {
				found = true
			}
		}
		return !found
	})
	return found
}
