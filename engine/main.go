package main

import (
	"flag"
	"fmt"
	"os"
	"sort"
	"strings"
	"time"
)

func main() {
	if len(os.Args) < 2 {
		fmt.Fprintln(os.Stderr, "usage: govc vc <pkgpath.Func>... | check <property> [--tier quick|thorough] | replay <path> | selftest")
		os.Exit(2)
	}
	switch os.Args[1] {
	case "vc":
		cmdVC(os.Args[2:])
	case "check":
		os.Exit(cmdCheck(os.Args[2:]))
	case "replay":
		os.Exit(cmdReplay(os.Args[2:]))
	case "locals":
		os.Exit(cmdLocals())
	default:
		fmt.Fprintln(os.Stderr, "unknown command", os.Args[1])
		os.Exit(2)
	}
}

func repoDir() string {
	if d := os.Getenv("REPO_DIR"); d != "" {
		return d
	}
	return "/repo"
}

// expandKey turns "ech.NewConn" into the full package path form.
func expandKey(k string) string {
	short := map[string]string{"ech": repoPkgPrefix, "dns": repoPkgPrefix + "/dns", "hpke": repoPkgPrefix + "/internal/hpke", "publish": repoPkgPrefix + "/publish"}
	if i := strings.Index(k, "."); i > 0 {
		if p, ok := short[k[:i]]; ok && !strings.Contains(k, "/") {
			return p + "." + k[i+1:]
		}
	}
	return k
}

func cmdVC(args []string) {
	fs := flag.NewFlagSet("vc", flag.ExitOnError)
	timeout := fs.Int("t", 10, "solver timeout (s)")
	show := fs.String("show", "", "print the query of obligations whose name contains this")
	verbose := fs.Bool("v", false, "list all obligations")
	fs.Parse(args)
	t0 := time.Now()
	prog, err := loadProgram(repoDir())
	if err != nil {
		fmt.Fprintln(os.Stderr, "load:", err)
		os.Exit(2)
	}
	fmt.Printf("loaded in %.1fs\n", time.Since(t0).Seconds())
	var results []*FuncResult
	for _, k := range fs.Args() {
		var rs []*FuncResult
		if strings.HasPrefix(k, "lemma:") {
			rs = []*FuncResult{verifyLemma(prog, strings.TrimPrefix(k, "lemma:"))}
		} else {
			rs = verifyAll(prog, expandKey(k))
		}
		for _, r := range rs {
			results = append(results, r)
			for _, e := range r.Errors {
				fmt.Println("ERROR", e)
			}
			for _, d := range r.Drift {
				fmt.Println("DRIFT", d)
			}
			for _, u := range r.Unmodelled {
				fmt.Println("unmodelled:", u)
			}
			for _, u := range r.Assumptions {
				fmt.Println("assumption:", u)
			}
			for _, u := range r.Stores {
				fmt.Println("store:", u)
			}
			fmt.Printf("%s: %d obligations, %d facts, %d decls\n", r.Name, len(r.Obls), len(r.Facts), len(r.Decls))
		}
	}
	work := "/verif/work/vc"
	os.RemoveAll(work)
	solveAll(results, work, *timeout, *timeout, false, 16, nil)
	for _, r := range results {
		n := map[string]int{}
		for _, o := range r.Obls {
			n[o.Result]++
			if o.Result != "unsat" || *verbose {
				fmt.Printf("  %-8s %-7s %5.2fs %s  (%s) %s\n", o.Result, o.Backend, o.Secs, o.Name, o.Pos, o.File)
			}
			if *show != "" && strings.Contains(o.Name, *show) {
				fmt.Println(r.query(o, true))
			}
		}
		var ks []string
		for k := range n {
			ks = append(ks, fmt.Sprintf("%s=%d", k, n[k]))
		}
		sort.Strings(ks)
		fmt.Printf("%s: %s\n", r.Name, strings.Join(ks, " "))
	}
	fmt.Printf("total %.1fs\n", time.Since(t0).Seconds())
}
