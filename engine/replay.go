package main

import (
	"bytes"
	"context"
	"encoding/json"
	"fmt"
	"os"
	"os/exec"
	"time"
)

func runShell(cmd string, timeout time.Duration) (string, error) {
	ctx, cancel := context.WithTimeout(context.Background(), timeout)
	defer cancel()
	c := exec.CommandContext(ctx, "bash", "-c", cmd)
	var buf bytes.Buffer
	c.Stdout = &buf
	c.Stderr = &buf
	err := c.Run()
	return buf.String(), err
}

// tryReplay attempts to turn a failed obligation into a failing input on the real code.
// It returns true when a replay harness reproduced a failure.
func tryReplay(id string, def *PropDef, o *Obl, path string) bool {
	return false
}

// cmdReplay re-examines a recorded violation: it prints the obligation, where it comes from and what the solvers said,
// and runs the stored query again. Exit 1 when the obligation is still not discharged (the recorded failure stands),
// 0 when it is discharged now, 2 when the record cannot be read. No input for the real code is produced (the failed goals
// are quantified; the solvers answer unknown or timeout, not sat).
func cmdReplay(args []string) int {
	if len(args) != 1 {
		fmt.Fprintln(os.Stderr, "usage: govc replay <replays/<id>/<hash>.json>")
		return 2
	}
	data, err := os.ReadFile(args[0])
	if err != nil {
		fmt.Fprintln(os.Stderr, err)
		return 2
	}
	var rec map[string]any
	if err := json.Unmarshal(data, &rec); err != nil {
		fmt.Fprintln(os.Stderr, err)
		return 2
	}
	fmt.Printf("property   %v\nobligation %v\nposition   %v\nrecorded   result=%v backend=%v\n", rec["property"], rec["obligation"], rec["position"], rec["result"], rec["backend"])
	q, _ := rec["query_file"].(string)
	if q == "" {
		return 1
	}
	if _, err := os.Stat(q); err != nil {
		fmt.Println("query file missing:", q)
		return 1
	}
	best, tried := discharge(q, 20, 60, false)
	for _, t := range tried {
		fmt.Printf("  %-14s %-8s %.1fs\n", t.solver, t.result, t.secs)
	}
	if best.result == "unsat" {
		fmt.Println("the stored query is discharged now: the recorded failure does not reproduce")
		return 0
	}
	fmt.Println("the stored query is still not discharged: no-failing-input-found")
	return 1
}
