package main

import (
	"bytes"
	"context"
	"os/exec"
	"time"
)

func runShell(cmd string, timeout time.Duration) (string, error) {
	ctx, cancel := context.WithTimeout(context.Background(), timeout)
	defer cancel()
	c := exec.CommandContext(ctx, "bash", "-c", cmd)
	var buf bytes.Buffer
	c.Stdout = &buf
	c.Stderr = &buf
	err := c.Run()
	return buf.String(), err
}

// tryReplay attempts to turn a failed obligation into a failing input on the real code.
// It returns true when a replay harness reproduced a failure.
func tryReplay(id string, def *PropDef, o *Obl, path string) bool {
	return false
}

func cmdReplay(args []string) int { return 2 }
