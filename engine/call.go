package main

import (
	"fmt"
	"go/ast"
	"go/constant"
	"go/token"
	"go/types"
	"sort"
	"strings"

	"golang.org/x/tools/go/packages"
	"golang.org/x/tools/go/types/typeutil"
)

// codeCtx describes the function whose code is currently being executed (top-level or inlined).
type codeCtx struct {
	name    string
	pkg     *packages.Package
	fc      *FuncContract
	loopIdx map[token.Pos]int
}

func (ex *Exec) curContract() *FuncContract {
	if len(ex.code) == 0 {
		return nil
	}
	return ex.code[len(ex.code)-1].fc
}

func (ex *Exec) loopOrdinal(pos token.Pos) int {
	for i := len(ex.code) - 1; i >= 0; i-- {
		if n, ok := ex.code[i].loopIdx[pos]; ok {
			return n
		}
	}
	return 0
}
func (ex *Exec) loopOrdinalPeek(pos token.Pos) int { return ex.loopOrdinal(pos) }

// alignLoops numbers the loops of body. Normally a loop's number is its position in source order, which is also the
// number its contract is filed under. When the hinted loop contracts do not line up with the loops at their positions
// (a loop was added or removed), the contracts are re-aligned by their text hints, in order; loops that no contract
// claims get numbers from 1001 on (no invariant: everything they modify is havocked).
func alignLoops(body ast.Node, fc *FuncContract) map[token.Pos]int {
	m := loopIndex(body)
	if fc == nil || len(fc.Loops) == 0 {
		return m
	}
	type srcLoop struct {
		pos  token.Pos
		text string
	}
	var src []srcLoop
	ast.Inspect(body, func(nd ast.Node) bool {
		switch l := nd.(type) {
		case *ast.ForStmt:
			t := ""
			if l.Cond != nil {
				t = exprString(l.Cond)
			}
			src = append(src, srcLoop{l.Pos(), t})
		case *ast.RangeStmt:
			src = append(src, srcLoop{l.Pos(), "range " + exprString(l.X)})
		case *ast.LabeledStmt:
			if gotoLabels(body)[l.Label.Name] {
				src = append(src, srcLoop{l.Pos(), l.Label.Name + ":"})
			}
		case *ast.CallExpr:
			if isLoopCall(l) && len(l.Args) > 0 {
				src = append(src, srcLoop{l.Pos(), "slices.DeleteFunc(" + exprString(l.Args[0])})
			}
		}
		return true
	})
	var ords []int
	for n := range fc.Loops {
		ords = append(ords, n)
	}
	sort.Ints(ords)
	aligned := true
	for _, n := range ords {
		h := fc.Loops[n].Hint
		if h == "" {
			continue
		}
		if n < 1 || n > len(src) || !strings.Contains(noSpace(src[n-1].text), noSpace(h)) {
			aligned = false
		}
	}
	if aligned {
		return m
	}
	out := map[token.Pos]int{}
	used := map[int]bool{}
	j := 0
	placed := 0
	for _, n := range ords {
		h := fc.Loops[n].Hint
		for k := j; k < len(src); k++ {
			if h == "" || strings.Contains(noSpace(src[k].text), noSpace(h)) {
				out[src[k].pos] = n
				used[k] = true
				j = k + 1
				placed++
				break
			}
		}
	}
	if placed < len(ords) && ords[len(ords)-1] <= len(src) {
		// some hinted contract finds its loop nowhere (the loop's header was reworded) and there are enough loops for the
		// positional numbering: keep the positions, the hint was only documentation
		return m
	}
	for k, l := range src {
		if !used[k] {
			out[l.pos] = 1001 + k
		}
	}
	return out
}

func loopIndex(body ast.Node) map[token.Pos]int {
	m := map[token.Pos]int{}
	n := 0
	labels := gotoLabels(body)
	ast.Inspect(body, func(nd ast.Node) bool {
		switch l := nd.(type) {
		case *ast.ForStmt, *ast.RangeStmt:
			n++
			m[nd.Pos()] = n
		case *ast.LabeledStmt:
			if labels[l.Label.Name] {
				n++
				m[nd.Pos()] = n
			}
		case *ast.CallExpr:
			if isLoopCall(l) {
				n++
				m[nd.Pos()] = n
			}
		}
		return true
	})
	return m
}

// isLoopCall: library calls that the engine executes as loops and that therefore take loop contracts.
func isLoopCall(c *ast.CallExpr) bool {
	return noSpace(exprString(c.Fun)) == "slices.DeleteFunc"
}

// gotoLabels returns the labels that are targets of goto statements in body.
func gotoLabels(body ast.Node) map[string]bool {
	out := map[string]bool{}
	ast.Inspect(body, func(nd ast.Node) bool {
		if b, ok := nd.(*ast.BranchStmt); ok && b.Tok == token.GOTO && b.Label != nil {
			out[b.Label.Name] = true
		}
		return true
	})
	return out
}

// findBoxed marks local variables whose address is taken (other than as out-parameters of modelled library calls).
func (ex *Exec) findBoxed(body ast.Node, info *types.Info) {
	var stack []ast.Node
	ast.Inspect(body, func(n ast.Node) bool {
		if n == nil {
			stack = stack[:len(stack)-1]
			return true
		}
		stack = append(stack, n)
		u, ok := n.(*ast.UnaryExpr)
		if !ok || u.Op != token.AND {
			return true
		}
		id, ok := ast.Unparen(u.X).(*ast.Ident)
		if !ok {
			return true
		}
		obj, ok := info.ObjectOf(id).(*types.Var)
		if !ok || (obj.Pkg() != nil && obj.Parent() == obj.Pkg().Scope()) {
			return true
		}
		// parent chain: optional conversion call, then the real call
		for i := len(stack) - 2; i >= 0; i-- {
			switch p := stack[i].(type) {
			case *ast.ParenExpr:
				continue
			case *ast.CallExpr:
				if tv, ok := info.Types[p.Fun]; ok && tv.IsType() {
					continue // conversion wrapper
				}
				if callee := typeutil.Callee(info, p); callee != nil {
					if f, ok := callee.(*types.Func); ok && isOutParamModel(f.FullName()) {
						return true
					}
				}
			}
			break
		}
		ex.boxed[obj] = true
		return true
	})
}

func isOutParamModel(full string) bool {
	return strings.HasPrefix(full, "(*golang.org/x/crypto/cryptobyte.String).") || full == "errors.As"
}

func (ex *Exec) evalArgs(args []ast.Expr, sig *types.Signature, ellipsis bool) []Val {
	var vals []Val
	if len(args) == 1 && sig != nil && sig.Params().Len() > 1 {
		if _, ok := ast.Unparen(args[0]).(*ast.CallExpr); ok {
			// f(g()) with multi-value g
			return ex.evalMulti(args[0], sig.Params().Len())
		}
	}
	for _, a := range args {
		vals = append(vals, ex.eval(a))
	}
	if sig == nil {
		return vals
	}
	np := sig.Params().Len()
	if sig.Variadic() && !ellipsis {
		fixed := vals
		var extra []Val
		if len(vals) >= np-1 {
			fixed = vals[:np-1]
			extra = vals[np-1:]
		}
		st := sig.Params().At(np - 1).Type()
		elem := elemTypeOf(st)
		var packed *T
		if len(extra) == 0 {
			packed = NilSlice
		} else {
			base := ex.fresh("varargs", SInt)
			ex.assume(Lt(I(1), base))
			for i, v := range extra {
				ex.assume(Eq(ex.memRead(elem, base, I(int64(i))), ex.coerce(v, elem).T))
			}
			packed = MkSlice(base, I(0), I(int64(len(extra))), I(int64(len(extra))))
		}
		out := append([]Val{}, fixed...)
		out = append(out, Val{packed, st})
		vals = out
	}
	for i := range vals {
		if i < np {
			vals[i] = ex.coerce(vals[i], sig.Params().At(i).Type())
		}
	}
	return vals
}

func (ex *Exec) evalCall(e *ast.CallExpr) []Val {
	saved := ex.curPos
	ex.curPos = e.Pos()
	defer func() { ex.curPos = saved }()
	info := ex.info()
	fun := ast.Unparen(e.Fun)
	if tv, ok := info.Types[fun]; ok && tv.IsType() {
		if len(e.Args) != 1 {
			ex.errorf("conversion with %d args", len(e.Args))
			return []Val{{I(0), tv.Type}}
		}
		// address-of element for the unsafe idiom is handled in evalAddrElem
		if u, ok := ast.Unparen(e.Args[0]).(*ast.UnaryExpr); ok && u.Op == token.AND {
			if ix, ok := ast.Unparen(u.X).(*ast.IndexExpr); ok {
				return []Val{{ex.evalAddrElem(ix), tv.Type}}
			}
		}
		v := ex.eval(e.Args[0])
		return []Val{ex.convert(v, tv.Type, exprString(e))}
	}
	if id, ok := fun.(*ast.Ident); ok {
		if b, ok := info.Uses[id].(*types.Builtin); ok {
			return ex.builtin(b.Name(), e)
		}
	}
	if sel, ok := fun.(*ast.SelectorExpr); ok {
		if b, ok := info.Uses[sel.Sel].(*types.Builtin); ok {
			return ex.builtin(b.Name(), e)
		}
	}
	resTypes := resultTypes(info.TypeOf(e))
	if ex.fc != nil && len(ex.fc.Binds) > 0 && len(ex.code) <= 1 {
		txt := noSpace(exprString(e))
		var env map[string]Val
		for _, b := range ex.fc.Binds {
			if noSpace(b.CallText) == txt {
				sc := ex.specHere(e.Pos())
				sc.where = b.Value.Line
				v, _ := ex.specEval(sc, b.Value.Expr)
				if env == nil {
					env = map[string]Val{}
				}
				env[b.Name] = v
				ex.bindsUsed[b] = true
			}
		}
		if env != nil {
			ex.ghostEnv = append(ex.ghostEnv, env)
			defer func() { ex.ghostEnv = ex.ghostEnv[:len(ex.ghostEnv)-1] }()
		}
	}
	callee, _ := typeutil.Callee(info, e).(*types.Func)
	if callee != nil {
		full := callee.Origin().FullName()
		// library models that need the argument expressions
		if r, ok := ex.libModel(full, e, callee); ok {
			return r
		}
		sig := callee.Type().(*types.Signature)
		var recv *Val
		if sig.Recv() != nil {
			sel := fun.(*ast.SelectorExpr)
			rv := ex.evalRecv(sel, sig)
			recv = &rv
		}
		argSig := sig
		if isig, ok := info.TypeOf(fun).(*types.Signature); ok && sig.TypeParams().Len() > 0 {
			argSig = isig // instantiated signature of a generic function
		}
		args := ex.evalArgs(e.Args, argSig, e.Ellipsis.IsValid())
		out := ex.dispatch(e, callee, recv, args, resTypes)
		if ex.fc != nil && len(ex.fc.Captures) > 0 && len(ex.code) <= 1 {
			txt := noSpace(exprString(e))
			for _, cp := range ex.fc.Captures {
				if strings.HasPrefix(txt, noSpace(cp.CallText)) && cp.Index < len(out) {
					ex.st.env["$cap."+cp.Name] = out[cp.Index].T
					ex.heapSort["$cap."+cp.Name] = out[cp.Index].T.S
					ex.keyType["$cap."+cp.Name] = out[cp.Index].Typ
				}
			}
		}
		return out
	}
	// function value: closure, contracted parameter, or unknown
	fv := ex.eval(fun)
	sig, _ := fv.Typ.Underlying().(*types.Signature)
	args := ex.evalArgs(e.Args, sig, e.Ellipsis.IsValid())
	return ex.callValue(e, fun, fv, sig, args, resTypes)
}

func resultTypes(t types.Type) []types.Type {
	if t == nil {
		return nil
	}
	if tup, ok := t.(*types.Tuple); ok {
		var out []types.Type
		for i := 0; i < tup.Len(); i++ {
			out = append(out, tup.At(i).Type())
		}
		return out
	}
	return []types.Type{t}
}

// evalAddrElem models &s[i] as an abstract address (only comparable within one array).
func (ex *Exec) evalAddrElem(ix *ast.IndexExpr) *T {
	x := ex.eval(ix.X)
	i := ex.eval(ix.Index)
	ex.assert("S", "index["+exprString(ix)+"]", And(Le(I(0), i.T), Lt(i.T, SLen(x.T))))
	if _, ok := ex.decls["arrAddr"]; !ok {
		ex.declare("arrAddr", []Sort{SInt}, SInt)
		ex.declAxiom("arrAddr$nonneg", Forall([]string{"b"}, Le(I(0), App("arrAddr", SInt, Const("b", SInt))), App("arrAddr", SInt, Const("b", SInt))))
	}
	ex.assumptions["unsafe.Pointer(&s[i]) modelled as arrAddr(array)+offset+i; addresses of different arrays are unrelated"] = true
	return Add(App("arrAddr", SInt, SBase(x.T)), Add(SOff(x.T), i.T))
}

// evalRecv evaluates the receiver of a method call, following embedded fields and adjusting indirection.
func (ex *Exec) evalRecv(sel *ast.SelectorExpr, sig *types.Signature) Val {
	selInfo := ex.info().Selections[sel]
	base := ex.eval(sel.X)
	if selInfo != nil && len(selInfo.Index()) > 1 {
		base = ex.fieldPath(base, selInfo.Index()[:len(selInfo.Index())-1], exprString(sel.X))
	}
	want := sig.Recv().Type()
	if isPointer(want) && !isPointer(base.Typ) && !isInterface(want) {
		// need address of an addressable value: only boxed variables are supported
		if id, ok := ast.Unparen(sel.X).(*ast.Ident); ok {
			if o, ok := ex.info().ObjectOf(id).(*types.Var); ok && ex.boxed[o] {
				return Val{ex.st.env[ex.keyOf(o)], want}
			}
		}
		// value receiver semantics approximated: pass a fresh cell holding the value
		ref := ex.alloc("tmp")
		if st := structOf(base.Typ); st != nil {
			ex.storeStructValue(ref, base.Typ, base.T)
		} else {
			k := ex.ptrHeapKey(base.Typ)
			ex.st.env[k] = Store(ex.get(ex.st, k), ref, base.T)
		}
		ex.assumptions["method with pointer receiver called on a non-boxed value at "+ex.posString(sel.Pos())+": effects on the receiver are lost"] = true
		return Val{ref, want}
	}
	if !isPointer(want) && isPointer(base.Typ) && !isInterface(want) {
		ex.assert("S", "nil["+exprString(sel.X)+"]", Ne(base.T, I(0)))
		return ex.derefLoad(base, nil)
	}
	if isInterface(base.Typ) {
		ex.assert("S", "nil["+exprString(sel.X)+"]", Ne(base.T, I(0)))
	}
	return base
}

func (ex *Exec) havocResults(resTypes []types.Type, what string) []Val {
	var out []Val
	for _, t := range resTypes {
		v := ex.fresh("r."+what, sortOf(t))
		ex.assume(ex.typeFact(t, v))
		out = append(out, Val{v, t})
	}
	return out
}

// dispatch performs a call to a known function object.
// callsiteChecks emits the callsite obligations of the function under verification for this call.
func (ex *Exec) callsiteChecks(e *ast.CallExpr, args []Val) {
	if e == nil || ex.fc == nil || len(ex.fc.Callsites) == 0 || len(ex.code) > 1 {
		return
	}
	txt := noSpace(ex.nodeText(e))
	if txt == "" {
		txt = noSpace(exprString(e))
	}
	for _, cc := range ex.fc.Callsites {
		if cc.Stmt || !strings.HasPrefix(txt, noSpace(cc.CallText)) {
			continue
		}
		ex.callsitesUsed[cc] = true
		sc := ex.specHere(e.Pos())
		sc.where = cc.Req.Line
		for i, a := range args {
			sc.vars[fmt.Sprintf("arg%d", i)] = a
		}
		// <param>0: the value a parameter of an enclosing (inlined) function had at its entry; the innermost frame wins
		for _, fr := range ex.frames {
			for n, v := range fr.entry {
				sc.vars[n+"0"] = v
			}
		}
		kind, lab := "F", cc.Req.Label
		if j := strings.Index(lab, ":"); j == 1 {
			kind, lab = lab[:1], lab[2:]
		}
		g, ok := ex.specTry(sc, cc.Req)
		if !ok {
			lab += ":not-evaluable"
		}
		ex.assert(kind, "callsite["+lab+"]", g)
	}
}

// stmtChecks proves (and then assumes) the "at" clauses attached to the statement about to be executed.
func (ex *Exec) stmtChecks(s ast.Stmt) {
	if ex.fc == nil || len(ex.fc.Callsites) == 0 || len(ex.code) > 1 || ex.st.dead || ex.quiet > 0 {
		return
	}
	switch s.(type) {
	case *ast.AssignStmt, *ast.ExprStmt, *ast.ReturnStmt, *ast.IncDecStmt, *ast.BranchStmt, *ast.ForStmt, *ast.IfStmt, *ast.RangeStmt, *ast.DeclStmt, *ast.GoStmt, *ast.DeferStmt, *ast.SendStmt:
	default:
		return
	}
	txt := ""
	for _, cc := range ex.fc.Callsites {
		if !cc.Stmt {
			continue
		}
		if txt == "" {
			txt = noSpace(ex.nodeText(s))
		}
		if !strings.HasPrefix(txt, noSpace(cc.CallText)) {
			continue
		}
		ex.callsitesUsed[cc] = true
		sc := ex.specHere(s.Pos())
		sc.where = cc.Req.Line
		if n := len(ex.entryStack); n > 0 {
			// entry(...) refers to the entry of the innermost enclosing loop, as in its invariants
			sc.entry = ex.entryStack[n-1]
		}
		kind, lab := "F", cc.Req.Label
		if j := strings.Index(lab, ":"); j == 1 {
			kind, lab = lab[:1], lab[2:]
		}
		g, ok := ex.specTry(sc, cc.Req)
		if !ok {
			if cc.Lemma {
				continue
			}
			lab += ":not-evaluable"
		}
		n0 := len(ex.obls)
		ex.assert(kind, "at["+lab+"]", g)
		if cc.Lemma {
			for _, o := range ex.obls[n0:] {
				o.LemmaStep = true
			}
		}
	}
}

func (ex *Exec) dispatch(e *ast.CallExpr, callee *types.Func, recv *Val, args []Val, resTypes []types.Type) []Val {
	ex.callsiteChecks(e, args)
	full := callee.Origin().FullName()
	sig := callee.Type().(*types.Signature)
	// dynamic dispatch on interface methods when the dynamic type is known
	if recv != nil && isInterface(sig.Recv().Type()) {
		if dt, ok := ex.dynType[recv.T.String()]; ok {
			if m, path := lookupMethod(dt, callee.Name()); m != nil {
				r := Val{recv.T, dt}
				if len(path) > 1 {
					r = ex.fieldPath(r, path[:len(path)-1], "recv")
				}
				if isInterface(m.Type().(*types.Signature).Recv().Type()) {
					ex.assert("S", "nil[embedded receiver of "+callee.Name()+"]", Ne(r.T, I(0)))
					return ex.dispatch(e, m, &r, args, resTypes)
				}
				rv := ex.adjustRecv(r, m.Type().(*types.Signature))
				return ex.dispatch(e, m, &rv, args, resTypes)
			}
		}
	}
	if r, ok := ex.libModelVals(full, callee, recv, args, resTypes); ok {
		return r
	}
	if fc, ok := ex.prog.contracts.Funcs["extern:"+full]; ok {
		ex.libUsed[full] = true
		return ex.callByContract(fc, callee, sig, recv, args, e)
	}
	if callee.Pkg() != nil {
		key := callee.Pkg().Path() + "." + funcKey(callee)
		fc := ex.prog.contracts.Funcs[key]
		decl := ex.prog.funcDecls[callee.Origin()]
		if fc != nil && !fc.Inline {
			return ex.callByContract(fc, callee, sig, recv, args, e)
		}
		if decl != nil && decl.Body != nil && (fc != nil || stmtCount(decl.Body) <= 14) {
			return ex.inlineDecl(callee, decl, fc, recv, args)
		}
	}
	ex.unmodelled["call to "+full+" (no contract): results unconstrained, no effect on modelled state"] = true
	return ex.havocResults(resTypes, callee.Name())
}

func (ex *Exec) adjustRecv(r Val, sig *types.Signature) Val {
	want := sig.Recv().Type()
	if !isPointer(want) && isPointer(r.Typ) {
		return ex.derefLoad(r, nil)
	}
	return r
}

func lookupMethod(t types.Type, name string) (*types.Func, []int) {
	ms := types.NewMethodSet(t)
	for i := 0; i < ms.Len(); i++ {
		if ms.At(i).Obj().Name() == name {
			f, _ := ms.At(i).Obj().(*types.Func)
			return f, ms.At(i).Index()
		}
	}
	return nil, nil
}

func funcKey(f *types.Func) string {
	sig := f.Type().(*types.Signature)
	if sig.Recv() != nil {
		t := sig.Recv().Type()
		if p, ok := t.(*types.Pointer); ok {
			t = p.Elem()
		}
		if n, ok := types.Unalias(t).(*types.Named); ok {
			return n.Obj().Name() + "." + f.Name()
		}
	}
	return f.Name()
}

func stmtCount(n ast.Node) int {
	c := 0
	ast.Inspect(n, func(x ast.Node) bool {
		if _, ok := x.(ast.Stmt); ok {
			c++
		}
		return true
	})
	return c
}

// callValue calls a function value.
func (ex *Exec) callValue(e *ast.CallExpr, fun ast.Expr, fv Val, sig *types.Signature, args []Val, resTypes []types.Type) []Val {
	ex.callsiteChecks(e, args)
	if c, ok := ex.closures[fv.T.String()]; ok && c.native != nil {
		return c.native(args)
	}
	if c, ok := ex.closures[fv.T.String()]; ok {
		name := c.name
		if name == "" {
			name = "func"
		}
		return ex.inlineBody("lit:"+name+"@"+ex.posString(c.lit.Pos()), sig, c.lit.Type, c.lit.Body, nil, nil, args, ex.pkg, ex.curContract(), false)
	}
	// contracted function parameter / named func type
	if id, ok := fun.(*ast.Ident); ok {
		if fc := ex.curContract(); fc != nil {
			if pc, ok := fc.Params[id.Name]; ok {
				return ex.callParamContract(pc, id.Name, sig, args, resTypes)
			}
		}
	}
	if n, ok := types.Unalias(fv.Typ).(*types.Named); ok && n.Obj().Pkg() != nil {
		if pc, ok := ex.prog.contracts.FuncTypes[n.Obj().Pkg().Path()+"."+n.Obj().Name()]; ok {
			return ex.callParamContract(pc, n.Obj().Name(), sig, args, resTypes)
		}
	}
	if id, ok := fun.(*ast.Ident); ok {
		if v, ok := ex.info().ObjectOf(id).(*types.Var); ok && v.Pkg() != nil && v.Parent() == v.Pkg().Scope() {
			if pc, ok := ex.prog.contracts.FuncTypes[v.Pkg().Path()+"."+v.Name()]; ok {
				ex.assumptions["package-level function variable "+v.Pkg().Name()+"."+v.Name()+" is non-nil and behaves as its functype contract says"] = true
				return ex.callParamContract(pc, v.Name(), sig, args, resTypes)
			}
		}
	}
	if sel, ok := fun.(*ast.SelectorExpr); ok {
		if fc := ex.curContract(); fc != nil {
			if pc, ok := fc.Params[exprString(sel)]; ok {
				return ex.callParamContract(pc, exprString(sel), sig, args, resTypes)
			}
		}
	}
	ex.assert("S", "nil-func["+exprString(fun)+"]", Ne(fv.T, I(0)))
	ex.unmodelled["call of function value "+exprString(fun)+" at "+ex.posString(e.Pos())+": results unconstrained, no effect on modelled state"] = true
	return ex.havocResults(resTypes, "fv")
}

// ---- inlining ----

func (ex *Exec) inlineDecl(callee *types.Func, decl *ast.FuncDecl, fc *FuncContract, recv *Val, args []Val) []Val {
	pkg := ex.prog.funcPkg[callee.Origin()]
	sig := callee.Type().(*types.Signature)
	return ex.inlineBody(callee.FullName(), sig, decl.Type, decl.Body, decl.Recv, recv, args, pkg, fc, true)
}

func (ex *Exec) inlineBody(name string, sig *types.Signature, ftype *ast.FuncType, body *ast.BlockStmt, recvFields *ast.FieldList, recv *Val, args []Val, pkg *packages.Package, fc *FuncContract, newCode bool) []Val {
	for _, n := range ex.inlineStack {
		if n == name {
			ex.errorf("recursive inlining of %s", name)
			return ex.havocResults(resultTypes(sig.Results()), "rec")
		}
	}
	if len(ex.inlineStack) > 12 {
		ex.errorf("inlining too deep at %s", name)
		return ex.havocResults(resultTypes(sig.Results()), "deep")
	}
	ex.inlineStack = append(ex.inlineStack, name)
	savedPkg := ex.pkg
	savedLoops := ex.loops
	savedLabel := ex.pendingLabel
	ex.pendingLabel = ""
	ex.pkg = pkg
	if newCode {
		ex.code = append(ex.code, &codeCtx{name: name, pkg: pkg, fc: fc, loopIdx: alignLoops(body, fc)})
		ex.findBoxed(body, pkg.TypesInfo)
		ex.loops = nil
	}
	fr := &frame{sig: sig, fnName: name, entry: map[string]Val{}}
	info := pkg.TypesInfo
	ex.nInline++
	inl := ex.nInline
	// receiver
	if recvFields != nil && recv != nil && len(recvFields.List) > 0 && len(recvFields.List[0].Names) > 0 {
		ex.define(recvFields.List[0].Names[0], *recv)
	}
	// params
	i := 0
	for _, fld := range ftype.Params.List {
		if len(fld.Names) == 0 {
			i++
			continue
		}
		for _, n := range fld.Names {
			if i < len(args) {
				ex.define(n, args[i])
				if n.Name != "_" {
					fr.entry[n.Name] = args[i]
				}
			}
			i++
		}
	}
	// results
	if ftype.Results != nil {
		ri := 0
		for _, fld := range ftype.Results.List {
			t := info.TypeOf(fld.Type)
			if len(fld.Names) == 0 {
				k := fmt.Sprintf("$res%d.%d", ri, inl)
				ex.heapSort[k] = sortOf(t)
				ex.keyType[k] = t
				ex.st.env[k] = ex.zeroValue(t)
				fr.resKeys = append(fr.resKeys, k)
				fr.resTyps = append(fr.resTyps, t)
				ri++
				continue
			}
			for _, n := range fld.Names {
				fr.named = true
				if n.Name == "_" {
					k := fmt.Sprintf("$res%d.%d", ri, inl)
					ex.heapSort[k] = sortOf(t)
					ex.st.env[k] = ex.zeroValue(t)
					fr.resKeys = append(fr.resKeys, k)
				} else {
					obj := info.Defs[n].(*types.Var)
					ex.define(n, Val{ex.zeroValue(t), t})
					fr.resKeys = append(fr.resKeys, ex.keyOf(obj))
					if ex.boxed[obj] {
						ex.errorf("address-taken named result %s unsupported", n.Name)
					}
				}
				fr.resTyps = append(fr.resTyps, t)
				ri++
			}
		}
	}
	ex.frames = append(ex.frames, fr)
	ex.execBlock(body.List)
	if !ex.st.dead {
		fr.exits = append(fr.exits, ex.st.clone())
	}
	// the function under verification: run the deferred calls and check the postconditions at each exit separately
	if len(ex.frames) == 1 && ex.exitHook != nil && len(fr.exits) > 1 && ex.quiet == 0 {
		hook := ex.exitHook
		ex.exitHook = nil
		for xi, x := range fr.exits {
			ex.st = x.clone()
			for j := len(fr.defers) - 1; j >= 0 && !ex.st.dead; j-- {
				ex.runDeferred(fr.defers[j])
			}
			if ex.st.dead {
				continue
			}
			var outs []Val
			for j, k := range fr.resKeys {
				outs = append(outs, Val{ex.get(ex.st, k), fr.resTyps[j]})
			}
			hook(outs, fmt.Sprintf("@exit%d", xi+1))
		}
		ex.exitsChecked = true
	}
	ex.st = ex.merge(fr.exits)
	// deferred calls, LIFO
	for j := len(fr.defers) - 1; j >= 0 && !ex.st.dead; j-- {
		ex.runDeferred(fr.defers[j])
	}
	ex.frames = ex.frames[:len(ex.frames)-1]
	var out []Val
	for j, k := range fr.resKeys {
		t := ex.get(ex.st, k)
		if t == nil {
			t = ex.zeroValue(fr.resTyps[j])
		}
		out = append(out, Val{t, fr.resTyps[j]})
	}
	for _, k := range fr.resKeys {
		if strings.HasPrefix(k, "$res") {
			delete(ex.st.env, k)
			delete(ex.heapSort, k)
		}
	}
	ex.lastFrame = fr
	if newCode {
		ex.code = ex.code[:len(ex.code)-1]
		ex.loops = savedLoops
	}
	ex.pendingLabel = savedLabel
	ex.pkg = savedPkg
	ex.inlineStack = ex.inlineStack[:len(ex.inlineStack)-1]
	return out
}

func (ex *Exec) runDeferred(d deferred) {
	if d.lit != nil {
		sig := ex.info().TypeOf(d.lit).(*types.Signature)
		ex.inlineBody("deferlit@"+ex.posString(d.lit.Pos()), sig, d.lit.Type, d.lit.Body, nil, nil, nil, ex.pkg, ex.curContract(), false)
		return
	}
	e := d.call
	info := ex.info()
	fun := ast.Unparen(e.Fun)
	if id, ok := fun.(*ast.Ident); ok {
		if b, ok := info.Uses[id].(*types.Builtin); ok {
			if b.Name() == "close" {
				return
			}
			ex.errorf("deferred builtin %s unsupported", b.Name())
			return
		}
	}
	callee, _ := typeutil.Callee(info, e).(*types.Func)
	resTypes := resultTypes(info.TypeOf(e))
	if callee != nil {
		sig := callee.Type().(*types.Signature)
		args := d.args
		for i := range args {
			if i < sig.Params().Len() {
				args[i] = ex.coerce(args[i], sig.Params().At(i).Type())
			}
		}
		ex.dispatch(e, callee, d.recv, args, resTypes)
		return
	}
	fv := ex.eval(fun)
	sig, _ := fv.Typ.Underlying().(*types.Signature)
	ex.callValue(e, fun, fv, sig, d.args, resTypes)
}

// ---- calls by contract ----

type modTarget struct {
	key string // heap key
	ref *T
}

func (ex *Exec) callByContract(fc *FuncContract, callee *types.Func, sig *types.Signature, recv *Val, args []Val, e *ast.CallExpr) []Val {
	cname := callee.Name()
	if sig.Recv() != nil {
		cname = funcKey(callee)
	}
	pk := callee.Pkg()
	sc := &specCtx{ex: ex, st: ex.st, vars: map[string]Val{}, stateVars: map[string]stateVar{}, pkg: pk, where: fc.Line}
	// bind parameter names
	names := fc.ParamNames
	if !fc.Extern {
		names = nil
		if sig.Recv() != nil {
			names = append(names, sig.Recv().Name())
		}
		for i := 0; i < sig.Params().Len(); i++ {
			names = append(names, sig.Params().At(i).Name())
		}
	}
	all := args
	if recv != nil {
		all = append([]Val{*recv}, args...)
	}
	if fc.Extern && len(names) != len(all) {
		ex.errorf("extern contract %s: %d parameter names for %d arguments", fc.Key, len(names), len(all))
	}
	for i, n := range names {
		if i < len(all) && n != "" && n != "_" {
			sc.vars[n] = all[i]
		}
	}
	// ghost parameters: instantiated from the innermost bind, otherwise arbitrary
	for gi, gn := range fc.GhostNames {
		var gv *Val
		for i := len(ex.ghostEnv) - 1; i >= 0 && gv == nil; i-- {
			if v, ok := ex.ghostEnv[i][gn]; ok {
				gv = &v
			}
		}
		gt := ex.lookupType(pk, fc.GhostTypes[gi])
		if gv == nil {
			t := ex.fresh("ghost."+gn, sortOf(gt))
			ex.assume(ex.typeFact(gt, t))
			gv = &Val{t, gt}
		}
		sc.vars[gn] = Val{gv.T, gt}
	}
	// preconditions (for a function that returns a sequence, "requires" and "modifies" describe the start and the effects of an
	// enumeration of that sequence, not the call that creates it)
	for i, c := range fc.Requires {
		if fc.IterBody {
			break
		}
		lab := c.Label
		if lab == "" {
			lab = fmt.Sprint(i + 1)
		}
		g := ex.specBool(sc, c)
		ex.assert("P", "call["+cname+"]-pre["+lab+"]", g)
	}
	old := ex.st.clone()
	// written slice parameters: rebind roots to fresh arrays
	for _, w := range fc.Writes {
		idx := -1
		for i, n := range names {
			if n == w {
				idx = i
			}
		}
		if idx < 0 {
			ex.errorf("contract %s: writes unknown parameter %s", fc.Key, w)
			continue
		}
		argIdx := idx
		if recv != nil {
			argIdx--
		}
		win := all[idx]
		elem := elemTypeOf(win.Typ)
		var root *lval
		if e != nil && argIdx >= 0 && argIdx < len(e.Args) {
			root = ex.rootLvalue(e.Args[argIdx])
		}
		nb := ex.fresh("arr", SInt)
		fn, srt := memFn(elem)
		k := Const("k", SInt)
		lo, hi := SOff(win.T), Add(SOff(win.T), SLen(win.T))
		ex.assume(And(Lt(I(1), nb), Forall([]string{"k"}, Imp(Or(Lt(k, lo), Le(hi, k)), Eq(App(fn, srt, nb, k), App(fn, srt, SBase(win.T), k))), App(fn, srt, nb, k))))
		sc.vars[w] = Val{MkSlice(nb, SOff(win.T), SLen(win.T), SCap(win.T)), win.Typ}
		if sc.oldVars == nil {
			sc.oldVars = map[string]Val{}
		}
		sc.oldVars[w] = win
		if root != nil && root.kind != lvBlank {
			ex.quiet++
			rv := ex.load(root)
			ex.quiet--
			ex.assert("O", "write-root["+root.str+"]", Eq(SBase(rv.T), SBase(win.T)))
			ex.store(root, Val{MkSlice(nb, SOff(rv.T), SLen(rv.T), SCap(rv.T)), rv.Typ})
			ex.stores["call "+cname+" writes "+root.str] = true
		} else {
			ex.assumptions["call to "+cname+" writes a slice whose owner could not be determined at "+ex.posString(ex.curPos)] = true
		}
	}
	// results
	var resNames []string
	resNames = append(resNames, fc.Results...)
	var out []Val
	for i := 0; i < sig.Results().Len(); i++ {
		rt := sig.Results().At(i).Type()
		rn := sig.Results().At(i).Name()
		if i < len(resNames) {
			rn = resNames[i]
		}
		v := ex.fresh("r."+callee.Name(), sortOf(rt))
		ex.assume(ex.typeFact(rt, v))
		out = append(out, Val{v, rt})
		if rn != "" && rn != "_" {
			sc.vars[rn] = Val{v, rt}
		}
		if sig.Results().Len() == 1 {
			sc.vars["result"] = Val{v, rt}
		}
	}
	// frame: modifies and allocates
	if !fc.IterBody {
		ex.applyFrame(sc, fc.Modifies, fc.Allocates, pk)
	}
	for _, v := range out {
		if isPointer(v.Typ) || isInterface(v.Typ) {
			ex.assume(Lt(v.T, ex.get(ex.st, "$alloc")))
		}
	}
	sc.st = ex.st
	sc.old = old
	ex.applyGhostSets(sc, fc, false)
	sc.st = ex.st
	for _, c := range fc.Ensures {
		ex.assume(ex.specBool(sc, c))
	}
	for _, b := range fc.Behaviors {
		// assumptions are evaluated in the pre-state, with the same bindings
		pre := *sc
		pre.st = old
		var as []*T
		for _, a := range b.Assumes {
			as = append(as, ex.specBool(&pre, a))
		}
		hyp := And(as...)
		for _, c := range b.Ensures {
			ex.assume(Imp(hyp, ex.specBool(sc, c)))
		}
	}
	return out
}

// applyGhostSets performs the ghost assignments of a contract in the state of sc (the post-state of a call or of an
// exit of the function itself). All targets and values are evaluated before any assignment.
func (ex *Exec) applyGhostSets(sc *specCtx, fc *FuncContract, own bool) {
	type upd struct {
		key      string
		ref, val *T
	}
	var us []upd
	for _, g := range fc.GhostSets {
		sc.where = g.Target.Line
		key, ref, ok := ex.specLvalue(sc, g.Target.Expr)
		if !ok || ref == nil || !strings.HasPrefix(key, "$G.") {
			ex.specErr(sc, "ghostset target must be a ghost cell g(key)")
			continue
		}
		v, _ := ex.specEval(sc, g.Value.Expr)
		us = append(us, upd{key, ref, v.T})
	}
	for _, u := range us {
		if own {
			ex.checkWrite(u.key, u.ref)
		}
		ex.st.env[u.key] = Store(ex.get(ex.st, u.key), u.ref, u.val)
	}
}

// applyFrame havocs what a callee may modify.
func (ex *Exec) applyFrame(sc *specCtx, modifies []*Clause, allocates []string, pk *types.Package) {
	type target struct {
		key string
		ref *T
	}
	var targets []target
	for _, m := range modifies {
		sc.where = m.Line
		key, ref, ok := ex.specLvalue(sc, m.Expr)
		if !ok {
			continue
		}
		targets = append(targets, target{key, ref})
	}
	allocKeys := map[string]types.Type{}
	if len(allocates) > 0 {
		for _, tn := range allocates {
			t := ex.lookupType(pk, tn)
			if st := structOf(t); st != nil {
				for i := 0; i < st.NumFields(); i++ {
					allocKeys[ex.heapKey(t, st.Field(i))] = st.Field(i).Type()
				}
			} else {
				allocKeys[ex.ptrHeapKey(t)] = t
			}
		}
	}
	before := ex.get(ex.st, "$alloc")
	if len(allocates) > 0 {
		na := ex.fresh("alloc", SInt)
		ex.assume(Le(before, na))
		ex.st.env["$alloc"] = na
	}
	done := map[string]bool{}
	for _, tg := range targets {
		// the caller's own frame must allow what the callee may modify
		if tg.ref == nil {
			if _, whole := ex.frameTargetsFor(tg.key); !whole && ex.oldState != nil && ex.fn != nil {
				ex.assert("O", "callee-modifies-all["+strings.TrimPrefix(tg.key, "$")+"]", False)
			}
		} else {
			ex.checkWrite(tg.key, tg.ref)
		}
	}
	for _, tg := range targets {
		if _, isAlloc := allocKeys[tg.key]; isAlloc {
			continue
		}
		if tg.ref == nil {
			ex.havocKey(tg.key)
			continue
		}
		cur := ex.get(ex.st, tg.key)
		nv := ex.fresh("mod", elemSortOf(cur.S))
		if t, ok := ex.keyType[tg.key]; ok {
			ex.assume(ex.typeFact(t, nv))
			if isPointer(t) {
				ex.assume(Lt(nv, ex.get(ex.st, "$alloc")))
			}
		} else if nv.S == SSlice {
			ex.assume(App("wfS", SBool, nv))
		}
		ex.st.env[tg.key] = Store(cur, tg.ref, nv)
	}
	var aks []string
	for k := range allocKeys {
		aks = append(aks, k)
	}
	sortStrings(aks)
	for _, k := range aks {
		if done[k] {
			continue
		}
		done[k] = true
		cur := ex.get(ex.st, k)
		na := ex.fresh("H", cur.S)
		p := Const("p", SInt)
		conds := []*T{Lt(p, before)}
		for _, tg := range targets {
			if tg.key == k && tg.ref != nil {
				conds = append(conds, Ne(p, tg.ref))
			}
		}
		ex.assume(Forall([]string{"p"}, Imp(And(conds...), Eq(Select(na, p), Select(cur, p))), Select(na, p)))
		ex.heapWF(k, na, false)
		ex.st.env[k] = na
	}
}

// specLvalue resolves a modifies target to (heap key, reference).
func (ex *Exec) specLvalue(sc *specCtx, e ast.Expr) (string, *T, bool) {
	switch e := e.(type) {
	case *ast.ParenExpr:
		return ex.specLvalue(sc, e.X)
	case *ast.SelectorExpr:
		x, _ := ex.specEval(sc, e.X)
		st := structOf(x.Typ)
		if st == nil || !isPointer(x.Typ) {
			ex.specErr(sc, "modifies target %s is not a field of a pointer", exprString(e))
			return "", nil, false
		}
		pt := x.Typ.Underlying().(*types.Pointer).Elem()
		for i := 0; i < st.NumFields(); i++ {
			if st.Field(i).Name() == e.Sel.Name {
				return ex.heapKey(pt, st.Field(i)), x.T, true
			}
		}
	case *ast.StarExpr:
		p, _ := ex.specEval(sc, e.X)
		pt, ok := p.Typ.Underlying().(*types.Pointer)
		if !ok {
			break
		}
		return ex.ptrHeapKey(pt.Elem()), p.T, true
	case *ast.CallExpr:
		if id, ok := e.Fun.(*ast.Ident); ok && id.Name == "all" && len(e.Args) == 1 {
			// all(T.f): every object's field f of struct type T
			if sel, ok := e.Args[0].(*ast.SelectorExpr); ok {
				t := ex.lookupType(sc.pkgOr(ex), exprString(sel.X))
				if st := structOf(t); st != nil {
					for i := 0; i < st.NumFields(); i++ {
						if st.Field(i).Name() == sel.Sel.Name {
							return ex.heapKey(t, st.Field(i)), nil, true
						}
					}
				}
			}
		}
		if id, ok := e.Fun.(*ast.Ident); ok && (id.Name == "mapHas" || id.Name == "mapVal" || id.Name == "mapLen") && len(e.Args) == 1 {
			m, _ := ex.specEval(sc, e.Args[0])
			mt, ok := m.Typ.Underlying().(*types.Map)
			if !ok {
				ex.specErr(sc, "mapOf: %s is not a map", exprString(e.Args[0]))
				return "", nil, false
			}
			has, val := ex.mapHeaps(mt)
			switch id.Name {
			case "mapHas":
				return has, m.T, true
			case "mapVal":
				return val, m.T, true
			}
			return "$M.len", m.T, true
		}
		if id, ok := e.Fun.(*ast.Ident); ok {
			if gd, ok := ex.prog.contracts.Ghosts[id.Name]; ok && !gd.Fn {
				a := ex.specArgs(sc, e.Args)
				rt := ex.lookupType(ex.pkgTypes(gd.Pkg), gd.ResType)
				key := "$G." + id.Name
				ex.ensureHeap(key, sortOf(rt))
				return key, a[0].T, true
			}
		}
	case *ast.Ident:
		// whole ghost map or named env key
		if gd, ok := ex.prog.contracts.Ghosts[e.Name]; ok && !gd.Fn {
			rt := ex.lookupType(ex.pkgTypes(gd.Pkg), gd.ResType)
			key := "$G." + e.Name
			ex.ensureHeap(key, sortOf(rt))
			return key, nil, true
		}
	}
	ex.specErr(sc, "unsupported modifies target %s", exprString(e))
	return "", nil, false
}

// callParamContract applies the contract of a function-typed parameter at a call site.
func (ex *Exec) callParamContract(pc *ParamContract, name string, sig *types.Signature, args []Val, resTypes []types.Type) []Val {
	sc := ex.specHere(ex.curPos)
	// entry(...): the entry of the innermost enclosing loop, or of the function when there is none
	if n := len(ex.entryStack); n > 0 {
		sc.entry = ex.entryStack[n-1]
	} else {
		sc.entry = ex.oldState
	}
	for i, n := range pc.Params {
		if i < len(args) {
			sc.vars[n] = args[i]
		}
	}
	for i, c := range pc.Requires {
		lab := c.Label
		if lab == "" {
			lab = fmt.Sprint(i + 1)
		}
		g, ok := ex.specTry(sc, c)
		if !ok {
			lab += ":not-evaluable"
		}
		ex.assert("F", "callsite["+name+"]-requires["+lab+"]", g)
	}
	old := ex.st.clone()
	pkT := ex.pkg.Types
	ex.applyFrame(sc, pc.Modifies, nil, pkT)
	out := ex.havocResults(resTypes, name)
	for i, n := range pc.Results {
		if i < len(out) {
			sc.vars[n] = out[i]
		}
	}
	sc.st = ex.st
	sc.old = old
	for _, c := range pc.Ensures {
		ex.assume(ex.specBool(sc, c))
	}
	return out
}

// ---- builtins ----

func (ex *Exec) builtin(name string, e *ast.CallExpr) []Val {
	typ := ex.typeOf(e)
	switch name {
	case "len", "cap":
		x := ex.eval(e.Args[0])
		if mt, ok := x.Typ.Underlying().(*types.Map); ok {
			return []Val{{ex.mapLenIn(ex.st, x, mt), typInt}}
		}
		if _, ok := x.Typ.Underlying().(*types.Chan); ok {
			return []Val{{ex.fresh("chanlen", SInt), typInt}}
		}
		if name == "len" {
			return []Val{{SLen(x.T), typInt}}
		}
		return []Val{{SCap(x.T), typInt}}
	case "append":
		return []Val{ex.builtinAppend(e)}
	case "copy":
		return []Val{ex.builtinCopy(e)}
	case "make":
		return []Val{ex.builtinMake(e)}
	case "new":
		t := ex.typeOf(e.Args[0])
		ref := ex.alloc("new")
		if types.TypeString(t, nil) == "sync/atomic.Int32" {
			ex.ensureHeap("$G.atomic32", SInt)
			ex.st.env["$G.atomic32"] = Store(ex.get(ex.st, "$G.atomic32"), ref, I(0))
		} else if st := structOf(t); st != nil && !isPointer(t) {
			ex.storeStructValue(ref, t, ex.zeroValue(t))
		} else {
			k := ex.ptrHeapKey(t)
			ex.st.env[k] = Store(ex.get(ex.st, k), ref, ex.zeroValue(t))
		}
		return []Val{{ref, typ}}
	case "min", "max":
		r := ex.eval(e.Args[0])
		for _, a := range e.Args[1:] {
			b := ex.eval(a)
			if name == "min" {
				r = Val{Ite(Le(r.T, b.T), r.T, b.T), typ}
			} else {
				r = Val{Ite(Le(r.T, b.T), b.T, r.T), typ}
			}
		}
		r.Typ = typ
		return []Val{r}
	case "panic":
		for _, a := range e.Args {
			ex.eval(a)
		}
		ex.assert("S", "unreachable[panic]", False)
		ex.st.dead = true
		ex.st.pc = False
		return nil
	case "delete":
		m := ex.eval(e.Args[0])
		k := ex.eval(e.Args[1])
		ex.mapDelete(m, m.Typ.Underlying().(*types.Map), k)
		return nil
	case "close":
		ex.eval(e.Args[0])
		return nil
	case "print", "println":
		return nil
	}
	ex.errorf("unsupported builtin %s", name)
	return []Val{{ex.fresh("unk", sortOf(typ)), typ}}
}

func (ex *Exec) builtinMake(e *ast.CallExpr) Val {
	typ := ex.typeOf(e)
	switch u := typ.Underlying().(type) {
	case *types.Slice:
		n := ex.eval(e.Args[1])
		c := n.T
		ex.assert("S", "make-size["+exprString(e)+"]", And(Le(I(0), n.T), Le(n.T, pow2(48))))
		if len(e.Args) > 2 {
			cv := ex.eval(e.Args[2])
			c = cv.T
			ex.assert("S", "make-cap["+exprString(e)+"]", And(Le(n.T, c), Le(c, pow2(48))))
		}
		base := ex.fresh("make", SInt)
		fn, srt := memFn(u.Elem())
		k := Const("k", SInt)
		zero := ex.zeroValue(u.Elem())
		ex.assume(And(Lt(I(1), base), Forall([]string{"k"}, Eq(App(fn, srt, base, k), zero), App(fn, srt, base, k))))
		ex.sizes = append(ex.sizes, n.T)
		return Val{MkSlice(base, I(0), n.T, c), typ}
	case *types.Map:
		return Val{ex.newMap(u), typ}
	case *types.Chan:
		c := ex.fresh("chan", SInt)
		ex.assume(Lt(I(0), c))
		return Val{c, typ}
	}
	ex.errorf("unsupported make(%s)", typ)
	return Val{ex.fresh("unk", sortOf(typ)), typ}
}

// appendSlices returns a fresh slice holding s followed by the elements of t.
func (ex *Exec) appendSlices(s, t *T, elem types.Type) *T {
	fn, srt := memFn(elem)
	at := "at" + fn[3:]
	base := ex.fresh("app", SInt)
	n := Add(SLen(s), SLen(t))
	c := ex.fresh("appcap", SInt)
	k := Const("k", SInt)
	r := MkSlice(base, I(0), n, c)
	ex.assume(And(Lt(I(1), base), Le(n, c), Le(c, pow2(48)),
		Forall([]string{"k"}, Imp(And(Le(I(0), k), Lt(k, SLen(s))), Eq(App(at, srt, r, k), App(at, srt, s, k))), App(at, srt, r, k)),
		Forall([]string{"k"}, Imp(And(Le(I(0), k), Lt(k, SLen(s))), Eq(App(fn, srt, base, k), App(fn, srt, SBase(s), Add(SOff(s), k)))), App(fn, srt, base, k)),
		Forall([]string{"k"}, Imp(And(Le(SLen(s), k), Lt(k, n)), Eq(App(fn, srt, base, k), App(fn, srt, SBase(t), Add(SOff(t), Sub(k, SLen(s)))))), App(fn, srt, base, k))))
	// appending nothing returns the original slice
	return Ite(Eq(SLen(t), I(0)), s, r)
}

func (ex *Exec) appendOne(s *T, v *T, elem types.Type) *T {
	fn, srt := memFn(elem)
	at := "at" + fn[3:]
	base := ex.fresh("app", SInt)
	n := Add(SLen(s), I(1))
	c := ex.fresh("appcap", SInt)
	k := Const("k", SInt)
	r := MkSlice(base, I(0), n, c)
	// copy facts in at-form (arithmetic-free patterns on both the new and the old slice) and the new element
	ex.assume(And(Lt(I(1), base), Le(n, c), Le(c, pow2(48)),
		Forall([]string{"k"}, Imp(And(Le(I(0), k), Lt(k, SLen(s))), Eq(App(at, srt, r, k), App(at, srt, s, k))), App(at, srt, r, k)),
		Eq(App(fn, srt, base, SLen(s)), v), Eq(App(at, srt, r, SLen(s)), v)))
	return r
}

func (ex *Exec) builtinAppend(e *ast.CallExpr) Val {
	typ := ex.typeOf(e)
	elem := elemTypeOf(typ)
	s := ex.coerce(ex.eval(e.Args[0]), typ)
	if strings.Contains(s.T.str, "(ite ") || len(s.T.str) > 100 {
		// the facts about the result use the operand inside quantifier patterns: keep it a plain constant
		c := ex.fresh("n.appendee", SSlice)
		ex.rawFact(Eq(c, s.T))
		s.T = c
	}
	// ownership obligation for functions that claim not to write into shared arrays
	if fc := ex.topContract(); fc != nil && fc.NoSharedAppend {
		ex.checkAppendOwner(e.Args[0], s)
	}
	if e.Ellipsis.IsValid() {
		t := ex.eval(e.Args[1])
		ex.checkAppendAlias(e.Args[0], s, Eq(SLen(t.T), I(0)))
		return Val{ex.appendSlices(s.T, t.T, elem), typ}
	}
	if len(e.Args) > 1 {
		ex.checkAppendAlias(e.Args[0], s, False)
	}
	cur := s.T
	for _, a := range e.Args[1:] {
		v := ex.coerce(ex.eval(a), elem)
		cur = ex.appendOne(cur, v.T, elem)
	}
	return Val{cur, typ}
}

func (ex *Exec) builtinCopy(e *ast.CallExpr) Val {
	dst := ex.eval(e.Args[0])
	src := ex.eval(e.Args[1])
	n := Ite(Le(SLen(dst.T), SLen(src.T)), SLen(dst.T), SLen(src.T))
	elem := elemTypeOf(dst.Typ)
	root := ex.rootLvalue(e.Args[0])
	if root == nil || root.kind == lvBlank {
		ex.errorf("copy into a slice without identifiable owner")
		return Val{n, typInt}
	}
	ex.quiet++
	rv := ex.load(root)
	ex.quiet--
	ex.assert("O", "write-root["+root.str+"]", Eq(SBase(rv.T), SBase(dst.T)))
	fn, srt := memFn(elem)
	nb := ex.fresh("arr", SInt)
	k := Const("k", SInt)
	lo := SOff(dst.T)
	hi := Add(lo, n)
	ex.assume(And(Lt(I(1), nb),
		Forall([]string{"k"}, Imp(Or(Lt(k, lo), Le(hi, k)), Eq(App(fn, srt, nb, k), App(fn, srt, SBase(dst.T), k))), App(fn, srt, nb, k)),
		Forall([]string{"k"}, Imp(And(Le(lo, k), Lt(k, hi)), Eq(App(fn, srt, nb, k), App(fn, srt, SBase(src.T), Add(SOff(src.T), Sub(k, lo))))), App(fn, srt, nb, k))))
	ex.store(root, Val{MkSlice(nb, SOff(rv.T), SLen(rv.T), SCap(rv.T)), rv.Typ})
	ex.stores["copy into "+root.str] = true
	return Val{n, typInt}
}

// ---- errors ----

func (ex *Exec) errIs(e, s *T) *T {
	ex.declare("errIs", []Sort{SInt, SInt}, SBool)
	return App("errIs", SBool, e, s)
}

// newError returns a fresh non-nil error that optionally wraps another.
func (ex *Exec) newError(wrapped *T) *T {
	e := ex.fresh("err", SInt)
	t := Const("t", SInt)
	ex.declare("errIs", []Sort{SInt, SInt}, SBool)
	ex.assume(Lt(I(10000), e))
	if wrapped == nil {
		ex.assume(Forall([]string{"t"}, Eq(App("errIs", SBool, e, t), Eq(t, e)), App("errIs", SBool, e, t)))
	} else {
		ex.assume(Forall([]string{"t"}, Eq(App("errIs", SBool, e, t), Or(Eq(t, e), And(Ne(wrapped, I(0)), App("errIs", SBool, wrapped, t)))), App("errIs", SBool, e, t)))
	}
	return e
}

func fmtVerbs(format string) []byte {
	var out []byte
	for i := 0; i < len(format); i++ {
		if format[i] != '%' {
			continue
		}
		i++
		for i < len(format) && strings.IndexByte("+-# 0123456789.*[]", format[i]) >= 0 {
			i++
		}
		if i < len(format) && format[i] != '%' {
			out = append(out, format[i])
		}
	}
	return out
}

func (ex *Exec) constString(e ast.Expr) (string, bool) {
	if tv, ok := ex.info().Types[e]; ok && tv.Value != nil && tv.Value.Kind() == constant.String {
		return constant.StringVal(tv.Value), true
	}
	return "", false
}

// calleeOf returns the statically known function called by e, if any.
func (ex *Exec) calleeOf(e *ast.CallExpr) *types.Func {
	f, _ := typeutil.Callee(ex.info(), e).(*types.Func)
	return f
}

// contractKey is the key under which a function's contract is filed.
func (ex *Exec) contractKey(f *types.Func) string {
	if f.Pkg() == nil {
		return funcKey(f)
	}
	return f.Pkg().Path() + "." + funcKey(f.Origin())
}
