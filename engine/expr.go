package main

import (
	"fmt"
	"go/ast"
	"go/constant"
	"go/token"
	"go/types"
	"math/big"
	"strings"
)

func (ex *Exec) info() *types.Info { return ex.pkg.TypesInfo }

func (ex *Exec) typeOf(e ast.Expr) types.Type {
	return ex.info().TypeOf(e)
}

func exprString(e ast.Expr) string {
	return types.ExprString(e)
}

// coerce adapts a value to a target type (untyped nil, interface boxing).
func (ex *Exec) coerce(v Val, target types.Type) Val {
	if target == nil {
		return v
	}
	if b, ok := v.Typ.(*types.Basic); ok && b.Kind() == types.UntypedNil {
		if sortOf(target) == SSlice {
			return Val{NilSlice, target}
		}
		return Val{I(0), target}
	}
	if _, isTP := target.(*types.TypeParam); isTP {
		return v
	}
	if isInterface(target) && v.Typ != nil && !isInterface(v.Typ) {
		return Val{ex.box(v), target}
	}
	if v.T.S != sortOf(target) {
		// sort mismatch (e.g. untyped const); leave as is
		return Val{v.T, target}
	}
	return Val{v.T, target}
}

var typeIDs = map[string]int64{}

func typeID(t types.Type) *T {
	k := types.TypeString(t, nil)
	if id, ok := typeIDs[k]; ok {
		return I(id)
	}
	id := int64(len(typeIDs) + 1)
	typeIDs[k] = id
	return I(id)
}

func ifacePayloadFn(s Sort) string {
	switch s {
	case SSlice:
		return "ifaceS"
	case SBool:
		return "ifaceO"
	}
	return "ifaceI"
}

// box converts a concrete value to an interface handle.
func (ex *Exec) box(v Val) *T {
	if isPointer(v.Typ) {
		// pointer-shaped: the handle is the pointer itself
		ex.assume(Imp(Ne(v.T, I(0)), Eq(App("dyntype", SInt, v.T), typeID(v.Typ))))
		ex.dynType[v.T.String()] = v.Typ
		return v.T
	}
	if _, ok := v.Typ.Underlying().(*types.Signature); ok {
		return v.T
	}
	h := ex.fresh("iface", SInt)
	ex.assume(And(Lt(I(0), h), Eq(App("dyntype", SInt, h), typeID(v.Typ)), Eq(App(ifacePayloadFn(v.T.S), v.T.S, h), v.T)))
	ex.dynType[h.String()] = v.Typ
	return h
}

func constToTerm(cv constant.Value, t types.Type, ex *Exec) *T {
	switch cv.Kind() {
	case constant.Bool:
		if constant.BoolVal(cv) {
			return True
		}
		return False
	case constant.String:
		return ex.strLit(constant.StringVal(cv))
	case constant.Int:
		if b, ok := constant.Val(cv).(*big.Int); ok {
			return IBig(b)
		}
		n, _ := constant.Int64Val(cv)
		return I(n)
	case constant.Float:
		if isInteger(t) {
			n, _ := constant.Int64Val(constant.ToInt(cv))
			return I(n)
		}
		return ex.floatConst(cv.ExactString())
	}
	return I(0)
}

func (ex *Exec) floatConst(s string) *T {
	name := "flt." + sanitize(s)
	ex.declare(name, nil, SInt)
	return Const(name, SInt)
}

// eval evaluates a single-valued expression.
func (ex *Exec) eval(e ast.Expr) Val {
	saved := ex.curPos
	ex.curPos = e.Pos()
	defer func() { ex.curPos = saved }()
	typ := ex.typeOf(e)
	if tv, ok := ex.info().Types[e]; ok && tv.Value != nil {
		return Val{constToTerm(tv.Value, tv.Type, ex), tv.Type}
	}
	switch e := e.(type) {
	case *ast.ParenExpr:
		return ex.eval(e.X)
	case *ast.BasicLit:
		// non-constant literal cannot happen
		ex.errorf("unexpected literal %s", e.Value)
	case *ast.Ident:
		return ex.evalIdent(e)
	case *ast.SelectorExpr:
		return ex.evalSelector(e)
	case *ast.StarExpr:
		p := ex.eval(e.X)
		ex.assert("S", "nil["+exprString(e.X)+"]", Ne(p.T, I(0)))
		return ex.derefLoad(p, typ)
	case *ast.UnaryExpr:
		return ex.evalUnary(e)
	case *ast.BinaryExpr:
		return ex.evalBinary(e)
	case *ast.IndexExpr:
		return ex.evalIndex(e)
	case *ast.SliceExpr:
		return ex.evalSliceExpr(e)
	case *ast.CallExpr:
		vs := ex.evalCall(e)
		if len(vs) == 0 {
			return Val{I(0), typ}
		}
		return vs[0]
	case *ast.CompositeLit:
		return ex.evalCompositeLit(e, false)
	case *ast.FuncLit:
		c := ex.fresh("clo", SInt)
		ex.assume(Lt(I(0), c))
		ex.closures[c.String()] = &closure{lit: e}
		ex.checkClosureContracts(e)
		return Val{c, typ}
	case *ast.TypeAssertExpr:
		v, ok := ex.typeAssert(e)
		ex.assert("S", "assert-type["+exprString(e)+"]", ok)
		return v
	case *ast.KeyValueExpr:
		return ex.eval(e.Value)
	}
	ex.errorf("unsupported expression %T %s", e, exprString(e))
	return Val{ex.fresh("unk", sortOf(typ)), typ}
}

func (ex *Exec) derefLoad(p Val, typ types.Type) Val {
	pt, _ := p.Typ.Underlying().(*types.Pointer)
	if pt == nil {
		ex.errorf("deref of non-pointer")
		return Val{ex.fresh("unk", sortOf(typ)), typ}
	}
	elem := pt.Elem()
	if st := structOf(elem); st != nil && !isPointer(elem) {
		return Val{ex.loadStructValue(p.T, elem), elem}
	}
	key := ex.ptrHeapKey(elem)
	return Val{Select(ex.get(ex.st, key), p.T), elem}
}

// loadStructValue builds a value handle from the heap fields of the object at ref.
func (ex *Exec) loadStructValue(ref *T, t types.Type) *T {
	st := structOf(t)
	var fs []*T
	for i := 0; i < st.NumFields(); i++ {
		f := st.Field(i)
		fs = append(fs, Select(ex.get(ex.st, ex.heapKey(t, f)), ref))
	}
	if st.NumFields() == 0 {
		return I(0)
	}
	return ex.mkStruct(t, fs)
}

// storeStructValue writes all fields of value handle h into the heap object at ref.
func (ex *Exec) storeStructValue(ref *T, t types.Type, h *T) {
	st := structOf(t)
	for i := 0; i < st.NumFields(); i++ {
		f := st.Field(i)
		k := ex.heapKey(t, f)
		ex.checkWrite(k, ref)
		ex.st.env[k] = Store(ex.get(ex.st, k), ref, ex.vfield(h, t, f))
	}
}

func (ex *Exec) globalConst(obj types.Object) *T {
	name := "g." + obj.Pkg().Name() + "." + obj.Name()
	s := sortOf(obj.Type())
	if _, ok := ex.decls[name]; !ok {
		ex.declare(name, nil, s)
		c := Const(name, s)
		if f := ex.typeFact(obj.Type(), c); f != True {
			ex.declAxiom(name+"$type", f)
		}
		if v, ok := obj.(*types.Var); ok {
			ex.globalAxioms(v, c)
		}
	}
	return Const(name, s)
}

// globalAxioms states what is known about package-level variables.
func (ex *Exec) globalAxioms(v *types.Var, c *T) {
	if types.Identical(v.Type(), types.Universe.Lookup("error").Type()) {
		// sentinel error: non-nil, distinct from other sentinels (index-based identity)
		idx := ex.prog.sentinelIndex(v)
		t := Const("t", SInt)
		ex.declAxiom(c.String()+"$sentinel", And(Eq(c, I(int64(100+idx))), App("errIs", SBool, c, c),
			Forall([]string{"t"}, Imp(App("errIs", SBool, c, t), Eq(t, c)), App("errIs", SBool, c, t))))
		return
	}
	// byte slice globals with literal initialiser
	if init, ok := ex.prog.globalInit[v]; ok {
		if cl, ok := init.(*ast.CompositeLit); ok && sortOf(v.Type()) == SSlice && isByte(elemTypeOf(v.Type())) {
			var fs []*T
			n := 0
			okAll := true
			pk := ex.prog.pkgs[v.Pkg().Path()]
			for _, el := range cl.Elts {
				tv, ok := pk.TypesInfo.Types[el]
				if !ok || tv.Value == nil {
					okAll = false
					break
				}
				x, _ := constant.Int64Val(tv.Value)
				fs = append(fs, Eq(App("memB", SInt, SBase(c), Add(SOff(c), I(int64(n)))), I(x)))
				n++
			}
			if okAll {
				fs = append(fs, Eq(SLen(c), I(int64(n))), Lt(I(1), SBase(c)))
				ex.declAxiom(c.String()+"$init", And(fs...))
				ex.assumptions["package-level variable "+v.Pkg().Name()+"."+v.Name()+" keeps its initial value"] = true
			}
		}
	}
}

func (p *Program) sentinelIndex(v *types.Var) int {
	for i, s := range p.sentinels {
		if s == v {
			return i
		}
	}
	p.sentinels = append(p.sentinels, v)
	return len(p.sentinels) - 1
}

func (ex *Exec) evalIdent(e *ast.Ident) Val {
	obj := ex.info().ObjectOf(e)
	typ := ex.typeOf(e)
	switch o := obj.(type) {
	case *types.Nil:
		return Val{I(0), types.Typ[types.UntypedNil]}
	case *types.Var:
		if o.Pkg() != nil && o.Parent() == o.Pkg().Scope() {
			return Val{ex.globalConst(o), o.Type()}
		}
		return ex.loadVar(o)
	case *types.Func:
		return Val{ex.funcConst(o), typ}
	case *types.Const:
		return Val{constToTerm(o.Val(), o.Type(), ex), o.Type()}
	}
	if e.Name == "_" {
		return Val{I(0), typ}
	}
	ex.errorf("unsupported identifier %s (%T)", e.Name, obj)
	return Val{ex.fresh("unk", sortOf(typ)), typ}
}

func (ex *Exec) funcConst(f *types.Func) *T {
	name := "fn." + sanitize(f.FullName())
	ex.declare(name, nil, SInt)
	ex.declAxiom(name+"$nn", Lt(I(0), Const(name, SInt)))
	return Const(name, SInt)
}

func (ex *Exec) loadVar(o *types.Var) Val {
	key := ex.keyOf(o)
	if ex.boxed[o] {
		ref := ex.st.env[key]
		if ref == nil {
			ex.errorf("boxed variable %s has no cell", o.Name())
			return Val{ex.fresh("unk", sortOf(o.Type())), o.Type()}
		}
		if st := structOf(o.Type()); st != nil && !isPointer(o.Type()) {
			return Val{ex.loadStructValue(ref, o.Type()), o.Type()}
		}
		return Val{Select(ex.get(ex.st, ex.ptrHeapKey(o.Type())), ref), o.Type()}
	}
	if ex.isSR(o) {
		return Val{ex.srAssemble(ex.st, o), o.Type()}
	}
	t, ok := ex.st.env[key]
	if !ok {
		// captured variable from an enclosing scope we did not execute, or unassigned
		t = ex.fresh("free."+o.Name(), sortOf(o.Type()))
		ex.rawFact(ex.typeFact(o.Type(), t))
		ex.st.env[key] = t
	}
	return Val{t, o.Type()}
}

func (ex *Exec) evalSelector(e *ast.SelectorExpr) Val {
	typ := ex.typeOf(e)
	if sel, ok := ex.info().Selections[e]; ok {
		switch sel.Kind() {
		case types.FieldVal:
			if ref, ok := ex.boxedStructRef(e.X); ok {
				return ex.fieldPath(Val{ref, types.NewPointer(ex.typeOf(e.X))}, sel.Index(), exprString(e.X))
			}
			if o := ex.srVar(e.X); o != nil {
				// field of a scalar-replaced local struct variable
				st := structOf(o.Type())
				f := st.Field(sel.Index()[0])
				v := Val{ex.srGet(ex.st, o, f), f.Type()}
				if len(sel.Index()) > 1 {
					return ex.fieldPath(v, sel.Index()[1:], exprString(e.X)+"."+f.Name())
				}
				return v
			}
			base := ex.eval(e.X)
			return ex.fieldPath(base, sel.Index(), exprString(e.X))
		case types.MethodVal:
			// method value used as value
			c := ex.fresh("mval", SInt)
			return Val{c, typ}
		}
	}
	// qualified identifier
	obj := ex.info().ObjectOf(e.Sel)
	switch o := obj.(type) {
	case *types.Var:
		return Val{ex.globalConst(o), o.Type()}
	case *types.Func:
		return Val{ex.funcConst(o), typ}
	case *types.Const:
		return Val{constToTerm(o.Val(), o.Type(), ex), o.Type()}
	}
	ex.errorf("unsupported selector %s", exprString(e))
	return Val{ex.fresh("unk", sortOf(typ)), typ}
}

// fieldPath follows a field index path from base.
func (ex *Exec) fieldPath(base Val, path []int, baseStr string) Val {
	cur := base
	for _, idx := range path {
		st := structOf(cur.Typ)
		if st == nil {
			ex.errorf("field access on non-struct %s", cur.Typ)
			return cur
		}
		f := st.Field(idx)
		if isPointer(cur.Typ) {
			ex.assert("S", "nil["+baseStr+"]", Ne(cur.T, I(0)))
			pt := cur.Typ.Underlying().(*types.Pointer).Elem()
			v := Select(ex.get(ex.st, ex.heapKey(pt, f)), cur.T)
			ex.assume(ex.typeFact(f.Type(), v))
			if isPointer(f.Type()) || isInterface(f.Type()) {
				ex.assume(Lt(v, ex.get(ex.st, "$alloc")))
			}
			cur = Val{v, f.Type()}
		} else {
			cur = Val{ex.vfield(cur.T, cur.Typ, f), f.Type()}
		}
		baseStr += "." + f.Name()
	}
	return cur
}

func (ex *Exec) evalUnary(e *ast.UnaryExpr) Val {
	typ := ex.typeOf(e)
	switch e.Op {
	case token.NOT:
		return Val{Not(ex.eval(e.X).T), typ}
	case token.SUB:
		v := ex.eval(e.X)
		return Val{ex.wrap(Neg(v.T), typ, "neg["+exprString(e.X)+"]"), typ}
	case token.ADD:
		return ex.eval(e.X)
	case token.XOR:
		v := ex.eval(e.X)
		if bits, signed, ok := intBits(typ); ok && !signed {
			return Val{Sub(Sub(pow2(bits), I(1)), v.T), typ}
		}
		return Val{Sub(Neg(v.T), I(1)), typ}
	case token.AND:
		return ex.evalAddrOf(e)
	case token.ARROW:
		// receive: an arbitrary value of the element type (channels carry no facts)
		ex.eval(e.X)
		ex.assumptions["channels: a received value is arbitrary (what was sent is not tracked)"] = true
		return ex.havocTyped(typ, "recv")
	}
	ex.errorf("unsupported unary %s", e.Op)
	return Val{ex.fresh("unk", sortOf(typ)), typ}
}

func (ex *Exec) evalAddrOf(e *ast.UnaryExpr) Val {
	typ := ex.typeOf(e)
	x := ast.Unparen(e.X)
	switch x := x.(type) {
	case *ast.CompositeLit:
		return ex.evalCompositeLit(x, true)
	case *ast.Ident:
		if o, ok := ex.info().ObjectOf(x).(*types.Var); ok && ex.boxed[o] {
			return Val{ex.st.env[ex.keyOf(o)], typ}
		}
	}
	ex.errorf("unsupported address-of %s", exprString(e))
	return Val{ex.fresh("unk", SInt), typ}
}

// wrap reduces an integer result to its type: unsigned wrap modulo, signed overflow obligation.
func (ex *Exec) wrap(t *T, typ types.Type, label string) *T {
	bits, signed, ok := intBits(typ)
	if !ok {
		return t
	}
	if b, isb := typ.Underlying().(*types.Basic); isb && b.Info()&types.IsUntyped != 0 {
		return t
	}
	if signed {
		ex.assert("S", "overflow["+label+"]", And(Le(Neg(pow2(bits-1)), t), Lt(t, pow2(bits-1))))
		return t
	}
	if n, isn := t.isNum(); isn && n.Sign() >= 0 && n.BitLen() <= int(bits) {
		return t
	}
	return Mod(t, pow2(bits))
}

// bitsOf computes an upper bound on the number of significant bits of a non-negative integer expression (syntactic).
func (ex *Exec) bitsOf(e ast.Expr) uint {
	e = ast.Unparen(e)
	if tv, ok := ex.info().Types[e]; ok && tv.Value != nil && tv.Value.Kind() == constant.Int {
		if b, ok := constant.Val(tv.Value).(*big.Int); ok {
			return uint(b.BitLen())
		}
		n, _ := constant.Uint64Val(tv.Value)
		return uint(big.NewInt(0).SetUint64(n).BitLen())
	}
	typ := ex.typeOf(e)
	tb, signed, _ := intBits(typ)
	if signed {
		tb = 64
	}
	switch e := e.(type) {
	case *ast.CallExpr:
		if tv, ok := ex.info().Types[e.Fun]; ok && tv.IsType() && len(e.Args) == 1 {
			in := ex.bitsOf(e.Args[0])
			if in < tb || tb == 0 {
				return in
			}
			return tb
		}
	case *ast.BinaryExpr:
		switch e.Op {
		case token.AND:
			a, b := ex.bitsOf(e.X), ex.bitsOf(e.Y)
			if a < b {
				return a
			}
			return b
		case token.OR, token.XOR:
			a, b := ex.bitsOf(e.X), ex.bitsOf(e.Y)
			if a > b {
				return a
			}
			return b
		case token.SHL:
			if k, ok := ex.constInt(e.Y); ok {
				r := ex.bitsOf(e.X) + uint(k)
				if tb != 0 && r > tb {
					return tb
				}
				return r
			}
		case token.SHR:
			if k, ok := ex.constInt(e.Y); ok {
				a := ex.bitsOf(e.X)
				if a > uint(k) {
					return a - uint(k)
				}
				return 0
			}
		}
	}
	if tb == 0 {
		return 64
	}
	return tb
}

// lowZeros returns a lower bound on the number of trailing zero bits (syntactic).
func (ex *Exec) lowZeros(e ast.Expr) uint {
	e = ast.Unparen(e)
	switch e := e.(type) {
	case *ast.BinaryExpr:
		switch e.Op {
		case token.SHL:
			if k, ok := ex.constInt(e.Y); ok {
				return uint(k) + ex.lowZeros(e.X)
			}
		case token.OR, token.XOR, token.ADD:
			a, b := ex.lowZeros(e.X), ex.lowZeros(e.Y)
			if a < b {
				return a
			}
			return b
		}
	case *ast.CallExpr:
		if tv, ok := ex.info().Types[e.Fun]; ok && tv.IsType() && len(e.Args) == 1 {
			return ex.lowZeros(e.Args[0])
		}
	}
	if tv, ok := ex.info().Types[e]; ok && tv.Value != nil && tv.Value.Kind() == constant.Int {
		if b, ok := constant.Val(tv.Value).(*big.Int); ok {
			return b.TrailingZeroBits()
		}
		n, _ := constant.Uint64Val(tv.Value)
		if n == 0 {
			return 64
		}
		z := uint(0)
		for n&1 == 0 {
			n >>= 1
			z++
		}
		return z
	}
	return 0
}

func (ex *Exec) constInt(e ast.Expr) (int64, bool) {
	if tv, ok := ex.info().Types[e]; ok && tv.Value != nil && tv.Value.Kind() == constant.Int {
		n, ok := constant.Int64Val(tv.Value)
		return n, ok
	}
	return 0, false
}

func (ex *Exec) constBig(e ast.Expr) (*big.Int, bool) {
	if tv, ok := ex.info().Types[e]; ok && tv.Value != nil && tv.Value.Kind() == constant.Int {
		if b, ok := constant.Val(tv.Value).(*big.Int); ok {
			return b, true
		}
		n, ok := constant.Int64Val(tv.Value)
		return big.NewInt(n), ok
	}
	return nil, false
}

func (ex *Exec) evalBinary(e *ast.BinaryExpr) Val {
	typ := ex.typeOf(e)
	switch e.Op {
	case token.LAND:
		a := ex.eval(e.X)
		var b Val
		base := ex.st
		after := ex.branch(base, a.T, func() { b = ex.eval(e.Y) })
		// state changes in the right operand (calls with side effects) are merged
		if ex.untouched[after] && sameEnv(after, base) {
			ex.st = base
			return Val{And(a.T, b.T), typ}
		}
		other := base.clone()
		other.pc = And(base.pc, Not(a.T))
		ex.st = ex.merge([]*State{after, other})
		return Val{And(a.T, b.T), typ}
	case token.LOR:
		a := ex.eval(e.X)
		var b Val
		base := ex.st
		after := ex.branch(base, Not(a.T), func() { b = ex.eval(e.Y) })
		if ex.untouched[after] && sameEnv(after, base) {
			ex.st = base
			return Val{Or(a.T, b.T), typ}
		}
		other := base.clone()
		other.pc = And(base.pc, a.T)
		ex.st = ex.merge([]*State{after, other})
		return Val{Or(a.T, b.T), typ}
	}
	a := ex.eval(e.X)
	b := ex.eval(e.Y)
	opType := ex.typeOf(e.X)
	if bb, ok := opType.(*types.Basic); ok && bb.Info()&types.IsUntyped != 0 {
		opType = ex.typeOf(e.Y)
	}
	if bb, ok := a.Typ.(*types.Basic); ok && bb.Kind() == types.UntypedNil {
		a = ex.coerce(a, b.Typ)
		opType = b.Typ
	}
	if bb, ok := b.Typ.(*types.Basic); ok && bb.Kind() == types.UntypedNil {
		b = ex.coerce(b, a.Typ)
		opType = a.Typ
	}
	// interface vs concrete comparison
	if isInterface(a.Typ) && !isInterface(b.Typ) {
		b = ex.coerce(b, a.Typ)
		opType = a.Typ
	} else if isInterface(b.Typ) && !isInterface(a.Typ) {
		a = ex.coerce(a, b.Typ)
		opType = b.Typ
	}
	label := exprString(e)
	switch e.Op {
	case token.EQL, token.NEQ:
		var r *T
		if sortOf(opType) == SSlice && !isString(opType) {
			// slice == nil
			r = Eq(SBase(a.T), SBase(b.T))
			if b.T != NilSlice && a.T != NilSlice {
				r = Eq(a.T, b.T)
			}
		} else {
			r = ex.valueEq(a.T, b.T, opType)
		}
		if e.Op == token.NEQ {
			r = Not(r)
		}
		return Val{r, typ}
	case token.LSS, token.LEQ, token.GTR, token.GEQ:
		if isString(opType) {
			ex.errorf("string ordering unsupported")
			return Val{ex.fresh("unk", SBool), typ}
		}
		if isFloat(opType) {
			return Val{ex.fresh("fcmp", SBool), typ}
		}
		switch e.Op {
		case token.LSS:
			return Val{Lt(a.T, b.T), typ}
		case token.LEQ:
			return Val{Le(a.T, b.T), typ}
		case token.GTR:
			return Val{Gt(a.T, b.T), typ}
		default:
			return Val{Ge(a.T, b.T), typ}
		}
	}
	if isString(typ) && e.Op == token.ADD {
		return Val{ex.concat(a.T, b.T), typ}
	}
	if isFloat(typ) {
		r := ex.fresh("flt", SInt)
		return Val{r, typ}
	}
	return Val{ex.arith(e.Op, a.T, b.T, typ, e.X, e.Y, label), typ}
}

// arith implements integer binary operators. xe/ye are the operand expressions when available (for bit-level rules).
func (ex *Exec) arith(op token.Token, a, b *T, typ types.Type, xe, ye ast.Expr, label string) *T {
	bits, signed, _ := intBits(typ)
	switch op {
	case token.ADD:
		return ex.wrap(Add(a, b), typ, label)
	case token.SUB:
		return ex.wrap(Sub(a, b), typ, label)
	case token.MUL:
		return ex.wrap(Mul(a, b), typ, label)
	case token.QUO, token.REM:
		ex.assert("S", "div0["+label+"]", Ne(b, I(0)))
		var q *T
		if !signed {
			q = Div(a, b)
		} else {
			q = Ite(Ge(a, I(0)), Div(a, b), Neg(Div(Neg(a), b)))
		}
		if op == token.QUO {
			return q
		}
		if !signed {
			return Mod(a, b)
		}
		return Sub(a, Mul(b, q))
	case token.SHL:
		if k, ok := b.isNum(); ok && k.IsInt64() && k.Int64() < 128 {
			return ex.wrap(Mul(a, pow2(uint(k.Int64()))), typ, label)
		}
	case token.SHR:
		if k, ok := b.isNum(); ok && k.IsInt64() && k.Int64() < 128 && !signed {
			return Div(a, pow2(uint(k.Int64())))
		}
		if k, ok := b.isNum(); ok && k.IsInt64() && k.Int64() < 128 {
			return Div(a, pow2(uint(k.Int64()))) // floor division = arithmetic shift
		}
	case token.AND:
		// x & mask where mask is a contiguous run of ones
		if m, ok := b.isNum(); ok {
			if r, ok := maskAnd(a, m); ok {
				return r
			}
		}
		if m, ok := a.isNum(); ok {
			if r, ok := maskAnd(b, m); ok {
				return r
			}
		}
	case token.OR, token.XOR:
		if xe != nil && ye != nil {
			if ex.bitsOf(ye) <= ex.lowZeros(xe) || ex.bitsOf(xe) <= ex.lowZeros(ye) {
				return Add(a, b)
			}
		}
		if z, ok := b.isNum(); ok && z.Sign() == 0 {
			return a
		}
	case token.AND_NOT:
	}
	// uninterpreted with range facts
	fn := "bvop." + sanitize(op.String())
	fn = strings.ReplaceAll(fn, "_", "x")
	switch op {
	case token.AND:
		fn = "bvand"
	case token.OR:
		fn = "bvor"
	case token.XOR:
		fn = "bvxor"
	case token.SHL:
		fn = "bvshl"
	case token.SHR:
		fn = "bvshr"
	case token.AND_NOT:
		fn = "bvandnot"
	}
	ex.declare(fn, []Sort{SInt, SInt}, SInt)
	r := App(fn, SInt, a, b)
	if bits > 0 {
		if signed {
			ex.assume(And(Le(Neg(pow2(bits-1)), r), Lt(r, pow2(bits-1))))
		} else {
			ex.assume(And(Le(I(0), r), Lt(r, pow2(bits))))
		}
	}
	if op == token.AND {
		// x & y <= min(x,y) for non-negative
		ex.assume(Imp(And(Le(I(0), a), Le(I(0), b)), And(Le(r, a), Le(r, b), Le(I(0), r))))
	}
	ex.assumptions["bit operation "+op.String()+" on non-constant operands treated as uninterpreted (range facts only)"] = true
	return r
}

// maskAnd computes x & m exactly when m is a contiguous run of ones (x non-negative).
func maskAnd(x *T, m *big.Int) (*T, bool) {
	if m.Sign() == 0 {
		return I(0), true
	}
	if m.Sign() < 0 {
		return nil, false
	}
	lo := m.TrailingZeroBits()
	sh := new(big.Int).Rsh(m, lo)
	// sh must be 2^w - 1
	w := uint(sh.BitLen())
	full := new(big.Int).Sub(new(big.Int).Lsh(big.NewInt(1), w), big.NewInt(1))
	if sh.Cmp(full) != 0 {
		return nil, false
	}
	r := Mod(Div(x, pow2(lo)), pow2(w))
	if lo > 0 {
		r = Mul(r, pow2(lo))
	} else {
		r = Mod(x, pow2(w))
	}
	return r, true
}

// concat returns the concatenation of two byte sequences (fresh array with pointwise facts).
func (ex *Exec) concat(a, b *T) *T {
	base := ex.fresh("cat", SInt)
	n := Add(SLen(a), SLen(b))
	r := MkSlice(base, I(0), n, n)
	k := Const("k", SInt)
	ex.assume(And(Lt(I(1), base),
		Forall([]string{"k"}, Imp(And(Le(I(0), k), Lt(k, SLen(a))), Eq(App("memB", SInt, base, k), App("memB", SInt, SBase(a), Add(SOff(a), k)))), App("memB", SInt, base, k)),
		Forall([]string{"k"}, Imp(And(Le(SLen(a), k), Lt(k, n)), Eq(App("memB", SInt, base, k), App("memB", SInt, SBase(b), Add(SOff(b), Sub(k, SLen(a)))))), App("memB", SInt, base, k))))
	return r
}

func (ex *Exec) evalIndex(e *ast.IndexExpr) Val {
	typ := ex.typeOf(e)
	xt := ex.typeOf(e.X)
	// generic function instantiation
	if tv, ok := ex.info().Types[e.X]; ok && !tv.IsValue() {
		return Val{ex.fresh("inst", SInt), typ}
	}
	if _, ok := xt.Underlying().(*types.Signature); ok {
		return ex.eval(e.X)
	}
	if mt, ok := xt.Underlying().(*types.Map); ok {
		m := ex.eval(e.X)
		k := ex.eval(e.Index)
		v, _ := ex.mapGet(m, mt, k)
		return Val{v, typ}
	}
	x := ex.eval(e.X)
	i := ex.eval(e.Index)
	s := x.T
	if isPointer(x.Typ) { // pointer to array
		ex.errorf("pointer-to-array index unsupported")
	}
	ex.assert("S", "index["+exprString(e)+"]", And(Le(I(0), i.T), Lt(i.T, SLen(s))))
	elem := elemTypeOf(xt)
	v := ex.elemAt(s, elem, i.T)
	if !isByte(elem) {
		ex.assume(ex.typeFact(elem, v))
	}
	return Val{v, typ}
}

func (ex *Exec) evalSliceExpr(e *ast.SliceExpr) Val {
	typ := ex.typeOf(e)
	x := ex.eval(e.X)
	s := x.T
	lo := I(0)
	if e.Low != nil {
		lo = ex.eval(e.Low).T
	}
	hi := SLen(s)
	if e.High != nil {
		hi = ex.eval(e.High).T
	}
	limit := SCap(s)
	if isString(x.Typ) {
		limit = SLen(s)
	}
	mx := limit
	if e.Max != nil {
		mx = ex.eval(e.Max).T
		ex.assert("S", "slice["+exprString(e)+"]", And(Le(I(0), lo), Le(lo, hi), Le(hi, mx), Le(mx, limit)))
	} else {
		ex.assert("S", "slice["+exprString(e)+"]", And(Le(I(0), lo), Le(lo, hi), Le(hi, limit)))
	}
	return Val{MkSlice(SBase(s), Add(SOff(s), lo), Sub(hi, lo), Sub(mx, lo)), typ}
}

// typeAssert evaluates x.(T) returning the value and the ok condition.
func (ex *Exec) typeAssert(e *ast.TypeAssertExpr) (Val, *T) {
	x := ex.eval(e.X)
	target := ex.typeOf(e.Type)
	if isInterface(target) {
		ok := ex.fresh("implements", SBool)
		ex.assume(Imp(ok, Ne(x.T, I(0))))
		return Val{x.T, target}, ok
	}
	ok := And(Ne(x.T, I(0)), Eq(App("dyntype", SInt, x.T), typeID(target)))
	var v *T
	if isPointer(target) {
		v = x.T
	} else if _, isSig := target.Underlying().(*types.Signature); isSig {
		v = x.T
	} else {
		v = App(ifacePayloadFn(sortOf(target)), sortOf(target), x.T)
	}
	// failed assertion yields zero value in comma-ok form; caller handles
	return Val{v, target}, ok
}

func (ex *Exec) evalCompositeLit(e *ast.CompositeLit, addr bool) Val {
	typ := ex.typeOf(e)
	switch u := typ.Underlying().(type) {
	case *types.Struct:
		vals := make([]*T, u.NumFields())
		for i, el := range e.Elts {
			if kv, ok := el.(*ast.KeyValueExpr); ok {
				name := kv.Key.(*ast.Ident).Name
				for j := 0; j < u.NumFields(); j++ {
					if u.Field(j).Name() == name {
						vals[j] = ex.coerce(ex.evalLitElem(kv.Value, u.Field(j).Type()), u.Field(j).Type()).T
					}
				}
			} else {
				vals[i] = ex.coerce(ex.evalLitElem(el, u.Field(i).Type()), u.Field(i).Type()).T
			}
		}
		for j := range vals {
			if vals[j] == nil {
				vals[j] = ex.zeroValue(u.Field(j).Type())
			}
		}
		if addr {
			ref := ex.alloc(structName(typ))
			for j := 0; j < u.NumFields(); j++ {
				k := ex.heapKey(typ, u.Field(j))
				ex.st.env[k] = Store(ex.get(ex.st, k), ref, vals[j])
			}
			return Val{ref, types.NewPointer(typ)}
		}
		if u.NumFields() == 0 {
			return Val{I(0), typ}
		}
		return Val{ex.named(ex.mkStruct(typ, vals), "lit"), typ}
	case *types.Slice, *types.Array:
		elem := elemTypeOf(typ)
		base := ex.fresh("litarr", SInt)
		ex.assume(Lt(I(1), base))
		n := int64(len(e.Elts))
		for i, el := range e.Elts {
			if kv, ok := el.(*ast.KeyValueExpr); ok {
				el = kv.Value
				ex.errorf("keyed slice literal unsupported")
			}
			v := ex.coerce(ex.evalLitElem(el, elem), elem)
			ex.assume(Eq(ex.memRead(elem, base, I(int64(i))), v.T))
		}
		if a, ok := u.(*types.Array); ok {
			n = a.Len()
		}
		return Val{MkSlice(base, I(0), I(n), I(n)), typ}
	case *types.Map:
		m := ex.newMap(u)
		for _, el := range e.Elts {
			kv := el.(*ast.KeyValueExpr)
			k := ex.coerce(ex.evalLitElem(kv.Key, u.Key()), u.Key())
			v := ex.coerce(ex.evalLitElem(kv.Value, u.Elem()), u.Elem())
			ex.mapSet(Val{m, typ}, u, k, v)
		}
		return Val{m, typ}
	}
	ex.errorf("unsupported composite literal of type %s", typ)
	return Val{ex.fresh("unk", sortOf(typ)), typ}
}

// evalLitElem evaluates an element of a composite literal whose type may be elided.
func (ex *Exec) evalLitElem(e ast.Expr, t types.Type) Val {
	if cl, ok := e.(*ast.CompositeLit); ok && cl.Type == nil {
		if p, isp := t.Underlying().(*types.Pointer); isp {
			_ = p
			return ex.evalCompositeLit(cl, true)
		}
		return ex.evalCompositeLit(cl, false)
	}
	return ex.eval(e)
}

// convert implements a Go type conversion T(x).
func (ex *Exec) convert(v Val, target types.Type, label string) Val {
	if b, ok := v.Typ.(*types.Basic); ok && b.Kind() == types.UntypedNil {
		return ex.coerce(v, target)
	}
	src := v.Typ
	if isInterface(target) {
		if isInterface(src) {
			return Val{v.T, target}
		}
		return Val{ex.box(v), target}
	}
	if tb, tsigned, tok := intBits(target); tok {
		if isFloat(src) {
			r := ex.fresh("f2i", SInt)
			ex.assume(ex.typeFact(target, r))
			return Val{r, target}
		}
		if sb, ssigned, sok := intBits(src); sok {
			// widening without sign issue: identity
			if (tsigned == ssigned && tb >= sb) || (tsigned && !ssigned && tb > sb) {
				return Val{v.T, target}
			}
			if !tsigned {
				if n, isn := v.T.isNum(); isn && n.Sign() >= 0 && n.BitLen() <= int(tb) {
					return Val{v.T, target}
				}
				return Val{Mod(v.T, pow2(tb)), target}
			}
			// to signed narrower or from unsigned same width
			m := Mod(v.T, pow2(tb))
			return Val{Ite(Lt(m, pow2(tb-1)), m, Sub(m, pow2(tb))), target}
		}
	}
	if isFloat(target) {
		if isFloat(src) {
			return Val{v.T, target}
		}
		ex.declare("i2f", []Sort{SInt}, SInt)
		return Val{App("i2f", SInt, v.T), target}
	}
	if sortOf(target) == sortOf(src) {
		// string<->[]byte, named types, pointer conversions, unsafe
		if isString(target) && !isString(src) && sortOf(src) == SInt {
			ex.errorf("string(int) conversion unsupported")
		}
		return Val{v.T, target}
	}
	ex.errorf("unsupported conversion %s -> %s (%s)", src, target, label)
	return Val{ex.fresh("conv", sortOf(target)), target}
}

var _ = fmt.Sprint

// ---- scalar replacement of local struct variables ----
// A local variable of struct type whose address is not taken is kept as one env entry per field,
// so that loops and branches only affect the fields that are actually assigned.

func (ex *Exec) isSR(o *types.Var) bool {
	if o == nil || ex.boxed[o] || ex.noSR[o] {
		return false
	}
	if o.Pkg() != nil && o.Parent() == o.Pkg().Scope() {
		return false
	}
	_, ok := o.Type().Underlying().(*types.Struct)
	return ok
}

func (ex *Exec) srVar(x ast.Expr) *types.Var {
	id, ok := ast.Unparen(x).(*ast.Ident)
	if !ok {
		return nil
	}
	o, ok := ex.info().ObjectOf(id).(*types.Var)
	if !ok || !ex.isSR(o) {
		return nil
	}
	return o
}

func (ex *Exec) srKey(o *types.Var, f *types.Var) string {
	k := ex.keyOf(o) + "." + f.Name()
	if _, ok := ex.keyType[k]; !ok {
		ex.keyType[k] = f.Type()
	}
	return k
}

func (ex *Exec) srGet(st *State, o *types.Var, f *types.Var) *T {
	k := ex.srKey(o, f)
	if t, ok := st.env[k]; ok {
		return t
	}
	t := ex.fresh("free."+o.Name()+"."+f.Name(), sortOf(f.Type()))
	ex.rawFact(ex.typeFact(f.Type(), t))
	st.env[k] = t
	return t
}

// srAssemble builds a value handle from the field entries.
func (ex *Exec) srAssemble(st *State, o *types.Var) *T {
	s := structOf(o.Type())
	var fs []*T
	for i := 0; i < s.NumFields(); i++ {
		fs = append(fs, ex.srGet(st, o, s.Field(i)))
	}
	if s.NumFields() == 0 {
		return I(0)
	}
	return ex.mkStruct(o.Type(), fs)
}

// srExplode assigns a whole struct value to the field entries.
func (ex *Exec) srExplode(o *types.Var, h *T) {
	s := structOf(o.Type())
	var fs []*T
	for i := 0; i < s.NumFields(); i++ {
		f := s.Field(i)
		fs = append(fs, ex.vfield(h, o.Type(), f))
		ex.st.env[ex.srKey(o, f)] = fs[i]
	}
	// a struct value is determined by its fields: re-assembling the exploded value gives the original back
	if s.NumFields() > 0 && h.Op != "mk."+structName(o.Type()) {
		ex.rawFact(Eq(ex.mkStruct(o.Type(), fs), h))
	}
}

// havocTyped returns an arbitrary well-typed value (references are allocated objects).
func (ex *Exec) havocTyped(t types.Type, hint string) Val {
	v := ex.fresh(hint, sortOf(t))
	ex.assume(ex.typeFact(t, v))
	if f := ex.refBounds(t, v, ex.get(ex.st, "$alloc"), 0); f != True {
		ex.assume(f)
	}
	return Val{v, t}
}

// checkClosureContracts: when a function literal with a "closure" contract is created, its body is executed once with
// arbitrary parameters (in a copy of the current state, effects discarded) and the contract's postconditions are asserted.
func (ex *Exec) checkClosureContracts(lit *ast.FuncLit) {
	if ex.fc == nil || len(ex.fc.Closures) == 0 || len(ex.code) > 1 || ex.quiet > 0 || ex.st.dead {
		return
	}
	txt := ""
	for _, cc := range ex.fc.Closures {
		if txt == "" {
			txt = noSpace(ex.nodeText(lit))
		}
		if !strings.HasPrefix(txt, noSpace(cc.Text)) {
			continue
		}
		if ex.closuresUsed == nil {
			ex.closuresUsed = map[*ClosureContract]bool{}
		}
		ex.closuresUsed[cc] = true
		sig, _ := ex.typeOf(lit).(*types.Signature)
		if sig == nil {
			continue
		}
		saved := ex.st
		ex.st = saved.clone()
		var args []Val
		for i := 0; i < sig.Params().Len(); i++ {
			args = append(args, ex.havocTyped(sig.Params().At(i).Type(), "cp."+sig.Params().At(i).Name()))
		}
		savedHook := ex.exitHook
		ex.exitHook = nil
		outs := ex.inlineBody("closure@"+ex.posString(lit.Pos()), sig, lit.Type, lit.Body, nil, nil, args, ex.pkg, ex.curContract(), false)
		ex.exitHook = savedHook
		if !ex.st.dead {
			sc := ex.specHere(lit.Pos())
			for i, n := range cc.Results {
				if i < len(outs) && n != "" && n != "_" {
					sc.vars[n] = outs[i]
				}
			}
			for i, c := range cc.Ensures {
				kind, lab := "F", c.Label
				if lab == "" {
					lab = fmt.Sprint(i + 1)
				}
				if j := strings.Index(lab, ":"); j == 1 {
					kind, lab = lab[:1], lab[2:]
				}
				g, ok := ex.specTry(sc, c)
				if !ok {
					lab += ":not-evaluable"
				}
				ex.curPos = lit.Pos()
				ex.assert(kind, "closure["+lab+"]", g)
			}
		}
		ex.st = saved
	}
}
