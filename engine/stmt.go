package main

import (
	"fmt"
	"go/ast"
	"go/token"
	"go/types"
	"os"
	"strings"
)

// ---- lvalues ----

type lvKind int

const (
	lvBlank lvKind = iota
	lvVar
	lvBoxed
	lvHeapField
	lvValField
	lvIndex
	lvDeref
	lvMap
)

type lval struct {
	kind    lvKind
	key     string
	obj     *types.Var
	ref     *T
	st      types.Type // struct type for field kinds
	f       *types.Var
	parent  *lval
	idx     *T
	typ     types.Type
	m       Val
	mt      *types.Map
	k       Val
	str     string
	srField bool
}

func (ex *Exec) lvalue(e ast.Expr) *lval {
	e = ast.Unparen(e)
	typ := ex.typeOf(e)
	switch e := e.(type) {
	case *ast.Ident:
		if e.Name == "_" {
			return &lval{kind: lvBlank, typ: typ}
		}
		obj, _ := ex.info().ObjectOf(e).(*types.Var)
		if obj == nil {
			ex.errorf("assignment to non-variable %s", e.Name)
			return &lval{kind: lvBlank, typ: typ}
		}
		if obj.Pkg() != nil && obj.Parent() == obj.Pkg().Scope() {
			ex.errorf("assignment to package-level variable %s unsupported", e.Name)
			return &lval{kind: lvBlank, typ: typ}
		}
		if ex.boxed[obj] {
			return &lval{kind: lvBoxed, obj: obj, key: ex.keyOf(obj), typ: obj.Type(), str: e.Name}
		}
		return &lval{kind: lvVar, obj: obj, key: ex.keyOf(obj), typ: obj.Type(), str: e.Name}
	case *ast.SelectorExpr:
		sel, ok := ex.info().Selections[e]
		if !ok || sel.Kind() != types.FieldVal {
			ex.errorf("unsupported lvalue %s", exprString(e))
			return &lval{kind: lvBlank, typ: typ}
		}
		path := sel.Index()
		xt := ex.typeOf(e.X)
		var cur *lval
		var curTyp types.Type
		var curVal Val
		isPtr := isPointer(xt)
		if o := ex.srVar(e.X); o != nil {
			st := structOf(o.Type())
			f := st.Field(path[0])
			cur = &lval{kind: lvVar, key: ex.srKey(o, f), typ: f.Type(), str: exprString(e.X) + "." + f.Name(), srField: true}
			if len(path) == 1 {
				return cur
			}
			path = path[1:]
			curTyp = f.Type()
			isPtr = isPointer(curTyp)
			if isPtr {
				curVal = ex.load(cur)
			}
		} else if ref, ok := ex.boxedStructRef(e.X); ok {
			// field of an address-taken struct variable: the variable lives in the heap
			isPtr = true
			curVal = Val{ref, types.NewPointer(xt)}
			curTyp = types.NewPointer(xt)
		} else if isPtr {
			curVal = ex.eval(e.X)
			curTyp = xt
		} else {
			cur = ex.lvalue(e.X)
			curTyp = xt
		}
		str := exprString(e.X)
		for _, idx := range path {
			st := structOf(curTyp)
			f := st.Field(idx)
			if isPtr {
				ex.assert("S", "nil["+str+"]", Ne(curVal.T, I(0)))
				pt := curTyp.Underlying().(*types.Pointer).Elem()
				cur = &lval{kind: lvHeapField, ref: curVal.T, st: pt, f: f, typ: f.Type()}
			} else {
				cur = &lval{kind: lvValField, parent: cur, st: curTyp, f: f, typ: f.Type()}
			}
			str += "." + f.Name()
			cur.str = str
			curTyp = f.Type()
			isPtr = isPointer(curTyp)
			if isPtr {
				curVal = ex.load(cur)
			}
		}
		return cur
	case *ast.IndexExpr:
		xt := ex.typeOf(e.X)
		if mt, ok := xt.Underlying().(*types.Map); ok {
			return &lval{kind: lvMap, m: ex.eval(e.X), mt: mt, k: ex.eval(e.Index), typ: typ, str: exprString(e)}
		}
		parent := ex.lvalue(e.X)
		s := ex.load(parent)
		i := ex.eval(e.Index)
		ex.assert("S", "index["+exprString(e)+"]", And(Le(I(0), i.T), Lt(i.T, SLen(s.T))))
		return &lval{kind: lvIndex, parent: parent, idx: i.T, typ: typ, str: exprString(e)}
	case *ast.StarExpr:
		p := ex.eval(e.X)
		ex.assert("S", "nil["+exprString(e.X)+"]", Ne(p.T, I(0)))
		return &lval{kind: lvDeref, ref: p.T, typ: typ, str: exprString(e)}
	}
	ex.errorf("unsupported lvalue %s", exprString(e))
	return &lval{kind: lvBlank, typ: typ}
}

func (ex *Exec) load(lv *lval) Val {
	switch lv.kind {
	case lvVar:
		if lv.srField {
			t, ok := ex.st.env[lv.key]
			if !ok {
				t = ex.fresh("free."+lv.str, sortOf(lv.typ))
				ex.rawFact(ex.typeFact(lv.typ, t))
				ex.st.env[lv.key] = t
			}
			return Val{t, lv.typ}
		}
		return ex.loadVar(lv.obj)
	case lvBoxed:
		return ex.loadVar(lv.obj)
	case lvHeapField:
		v := Select(ex.get(ex.st, ex.heapKey(lv.st, lv.f)), lv.ref)
		ex.assume(ex.typeFact(lv.typ, v))
		if isPointer(lv.typ) || isInterface(lv.typ) {
			ex.assume(Lt(v, ex.get(ex.st, "$alloc")))
		}
		return Val{v, lv.typ}
	case lvValField:
		p := ex.load(lv.parent)
		return Val{ex.vfield(p.T, lv.st, lv.f), lv.typ}
	case lvIndex:
		s := ex.load(lv.parent)
		return Val{ex.elemAt(s.T, lv.typ, lv.idx), lv.typ}
	case lvDeref:
		if st := structOf(lv.typ); st != nil && !isPointer(lv.typ) {
			return Val{ex.loadStructValue(lv.ref, lv.typ), lv.typ}
		}
		return Val{Select(ex.get(ex.st, ex.ptrHeapKey(lv.typ)), lv.ref), lv.typ}
	case lvMap:
		v, _ := ex.mapGet(lv.m, lv.mt, lv.k)
		return Val{v, lv.typ}
	}
	return Val{ex.zeroValue(lv.typ), lv.typ}
}

func (ex *Exec) store(lv *lval, v Val) {
	if ex.st.dead {
		return
	}
	v = ex.coerce(v, lv.typ)
	v.T = ex.named(v.T, lv.str)
	switch lv.kind {
	case lvBlank:
	case lvVar:
		if !lv.srField && ex.isSR(lv.obj) {
			ex.srExplode(lv.obj, v.T)
			return
		}
		ex.st.env[lv.key] = v.T
	case lvBoxed:
		ref := ex.st.env[lv.key]
		if ref == nil {
			ref = ex.alloc(lv.obj.Name())
			ex.st.env[lv.key] = ref
		}
		if st := structOf(lv.typ); st != nil && !isPointer(lv.typ) {
			ex.storeStructValue(ref, lv.typ, v.T)
		} else {
			k := ex.ptrHeapKey(lv.typ)
			ex.st.env[k] = Store(ex.get(ex.st, k), ref, v.T)
		}
	case lvHeapField:
		k := ex.heapKey(lv.st, lv.f)
		ex.checkWrite(k, lv.ref)
		ex.st.env[k] = Store(ex.get(ex.st, k), lv.ref, v.T)
	case lvValField:
		p := ex.load(lv.parent)
		st := structOf(lv.st)
		var fs []*T
		for i := 0; i < st.NumFields(); i++ {
			f := st.Field(i)
			if f == lv.f {
				fs = append(fs, v.T)
			} else {
				fs = append(fs, ex.vfield(p.T, lv.st, f))
			}
		}
		ex.store(lv.parent, Val{ex.mkStruct(lv.st, fs), lv.st})
	case lvIndex:
		s := ex.load(lv.parent)
		ns := ex.writeRange(s.T, lv.typ, lv.idx, Add(lv.idx, I(1)), lv.str)
		ex.assume(Eq(ex.elemAt(ns, lv.typ, lv.idx), v.T))
		ex.store(lv.parent, Val{ns, s.Typ})
	case lvDeref:
		if st := structOf(lv.typ); st != nil && !isPointer(lv.typ) {
			ex.storeStructValue(lv.ref, lv.typ, v.T)
		} else {
			k := ex.ptrHeapKey(lv.typ)
			ex.checkWrite(k, lv.ref)
			ex.st.env[k] = Store(ex.get(ex.st, k), lv.ref, v.T)
		}
	case lvMap:
		ex.mapSet(lv.m, lv.mt, lv.k, v)
	}
}

// writeRange returns a new slice with the same window as s, over a fresh array equal to the old one
// outside [lo,hi) (indices relative to s). The caller states the new content.
func (ex *Exec) writeRange(s *T, elem types.Type, lo, hi *T, what string) *T {
	nb := ex.fresh("arr", SInt)
	ex.stores[what] = true
	k := Const("k", SInt)
	fn, srt := memFn(elem)
	off := SOff(s)
	ex.assume(And(Lt(I(1), nb),
		Forall([]string{"k"}, Imp(Or(Lt(k, Add(off, lo)), Le(Add(off, hi), k)), Eq(App(fn, srt, nb, k), App(fn, srt, SBase(s), k))), App(fn, srt, nb, k))))
	return MkSlice(nb, off, SLen(s), SCap(s))
}

// rootLvalue finds the variable-like lvalue whose slice value contains the window denoted by e.
func (ex *Exec) rootLvalue(e ast.Expr) *lval {
	e = ast.Unparen(e)
	switch x := e.(type) {
	case *ast.SliceExpr:
		return ex.rootLvalue(x.X)
	case *ast.Ident, *ast.SelectorExpr:
		saved := ex.quiet
		ex.quiet++
		lv := ex.lvalue(e)
		ex.quiet = saved
		return lv
	case *ast.CallExpr:
		if tv, ok := ex.info().Types[x.Fun]; ok && tv.IsType() && len(x.Args) == 1 {
			return ex.rootLvalue(x.Args[0])
		}
	}
	return nil
}

// ---- statements ----

func (ex *Exec) execBlock(stmts []ast.Stmt) {
	for i, s := range stmts {
		if ex.st.dead {
			return
		}
		// "L: ...; goto L" (backward jump within one block): the statements from L to the end of the block form a loop
		// whose iterations are started by goto L; falling off the end leaves it.
		if ls, ok := s.(*ast.LabeledStmt); ok && gotoTargetIn(stmts[i:], ls.Label.Name) {
			body := append([]ast.Stmt{ls.Stmt}, stmts[i+1:]...)
			body = append(body, &ast.BranchStmt{TokPos: ls.End(), Tok: token.BREAK})
			lp := &loopParts{pos: ls.Pos(), text: ls.Label.Name + ":", body: body, scopePos: ls.Stmt.Pos()}
			lp.cond = func() *T { return True }
			savedGoto := ex.gotoHandler
			name := ls.Label.Name
			ex.gotoHandler = func(label string) {
				if label != name {
					if savedGoto != nil {
						savedGoto(label)
					} else {
						ex.errorf("out of subset: goto %s", label)
					}
					return
				}
				lf := ex.findLoop(name, true)
				if lf == nil {
					ex.errorf("goto %s outside its block", label)
					return
				}
				lf.continues = append(lf.continues, ex.st.clone())
				ex.st.dead = true
				ex.st.pc = False
			}
			ex.pendingLabel = name
			ex.execLoop(lp)
			ex.gotoHandler = savedGoto
			return
		}
		ex.execStmt(s)
	}
}

// gotoTargetIn reports whether some goto in stmts jumps to label.
func gotoTargetIn(stmts []ast.Stmt, label string) bool {
	found := false
	for _, s := range stmts {
		ast.Inspect(s, func(n ast.Node) bool {
			if b, ok := n.(*ast.BranchStmt); ok && b.Tok == token.GOTO && b.Label != nil && b.Label.Name == label {
				found = true
			}
			return !found
		})
	}
	return found
}

func (ex *Exec) execStmt(s ast.Stmt) {
	if ex.st.dead || len(ex.errs) > 50 {
		return
	}
	ex.curPos = s.Pos()
	ex.stmtChecks(s)
	switch s := s.(type) {
	case *ast.BlockStmt:
		ex.execBlock(s.List)
	case *ast.ExprStmt:
		if call, ok := ast.Unparen(s.X).(*ast.CallExpr); ok {
			ex.evalCall(call)
		} else {
			ex.eval(s.X)
		}
	case *ast.AssignStmt:
		ex.execAssign(s)
	case *ast.IncDecStmt:
		lv := ex.lvalue(s.X)
		v := ex.load(lv)
		op := token.ADD
		if s.Tok == token.DEC {
			op = token.SUB
		}
		r := ex.arith(op, v.T, I(1), lv.typ, nil, nil, exprString(s.X)+s.Tok.String())
		ex.store(lv, Val{r, lv.typ})
	case *ast.DeclStmt:
		gd, ok := s.Decl.(*ast.GenDecl)
		if !ok || gd.Tok != token.VAR {
			return
		}
		for _, sp := range gd.Specs {
			vs := sp.(*ast.ValueSpec)
			if len(vs.Values) == 1 && len(vs.Names) > 1 {
				vals := ex.evalMulti(vs.Values[0], len(vs.Names))
				for i, n := range vs.Names {
					ex.define(n, vals[i])
				}
				continue
			}
			for i, n := range vs.Names {
				obj, _ := ex.info().Defs[n].(*types.Var)
				if obj == nil {
					continue
				}
				if i < len(vs.Values) {
					ex.define(n, ex.coerce(ex.eval(vs.Values[i]), obj.Type()))
				} else {
					ex.define(n, Val{ex.zeroValue(obj.Type()), obj.Type()})
				}
			}
		}
	case *ast.IfStmt:
		ex.execIf(s)
	case *ast.ForStmt:
		ex.execFor(s)
	case *ast.RangeStmt:
		ex.execRange(s)
	case *ast.SwitchStmt:
		ex.execSwitch(s)
	case *ast.TypeSwitchStmt:
		ex.execTypeSwitch(s)
	case *ast.ReturnStmt:
		ex.execReturn(s)
	case *ast.BranchStmt:
		ex.execBranch(s)
	case *ast.LabeledStmt:
		ex.pendingLabel = s.Label.Name
		ex.execStmt(s.Stmt)
		ex.pendingLabel = ""
	case *ast.DeferStmt:
		ex.execDefer(s)
	case *ast.GoStmt:
		ex.execGo(s)
	case *ast.EmptyStmt:
	case *ast.SendStmt:
		ex.eval(s.Chan)
		ex.eval(s.Value)
		ex.assumptions["channels: a send has no effect on the modelled state"] = true
	case *ast.SelectStmt:
		ex.execSelect(s)
	default:
		ex.errorf("unsupported statement %T", s)
	}
}

// define binds a newly declared identifier.
func (ex *Exec) define(id *ast.Ident, v Val) {
	if id.Name == "_" {
		return
	}
	obj, _ := ex.info().Defs[id].(*types.Var)
	if obj == nil {
		// redeclaration in := refers to existing var
		obj, _ = ex.info().Uses[id].(*types.Var)
		if obj == nil {
			return
		}
	}
	v = ex.coerce(v, obj.Type())
	v.T = ex.named(v.T, id.Name)
	key := ex.keyOf(obj)
	if ex.boxed[obj] {
		// fresh cell at each declaration
		delete(ex.st.env, key)
		ex.store(&lval{kind: lvBoxed, obj: obj, key: key, typ: obj.Type()}, v)
		return
	}
	if ex.isSR(obj) {
		ex.srExplode(obj, v.T)
		return
	}
	ex.st.env[key] = v.T
}

func (ex *Exec) evalMulti(e ast.Expr, n int) []Val {
	e = ast.Unparen(e)
	switch x := e.(type) {
	case *ast.CallExpr:
		vs := ex.evalCall(x)
		for len(vs) < n {
			vs = append(vs, Val{I(0), nil})
		}
		return vs
	case *ast.TypeAssertExpr:
		v, ok := ex.typeAssert(x)
		zero := ex.zeroValue(v.Typ)
		return []Val{{Ite(ok, v.T, zero), v.Typ}, {ok, types.Typ[types.Bool]}}
	case *ast.IndexExpr:
		if mt, ok := ex.typeOf(x.X).Underlying().(*types.Map); ok {
			m := ex.eval(x.X)
			k := ex.eval(x.Index)
			v, has := ex.mapGet(m, mt, k)
			return []Val{{v, mt.Elem()}, {has, types.Typ[types.Bool]}}
		}
	case *ast.UnaryExpr:
		if x.Op == token.ARROW {
			ex.eval(x.X)
			ct, _ := ex.typeOf(x.X).Underlying().(*types.Chan)
			var et types.Type = typInt
			if ct != nil {
				et = ct.Elem()
			}
			ex.assumptions["channels: a received value is arbitrary (what was sent is not tracked)"] = true
			ok := ex.fresh("recvok", SBool)
			return []Val{ex.havocTyped(et, "recv"), {ok, types.Typ[types.Bool]}}
		}
	}
	ex.errorf("unsupported multi-value expression %s", exprString(e))
	out := make([]Val, n)
	for i := range out {
		out[i] = Val{I(0), nil}
	}
	return out
}

func (ex *Exec) execAssign(s *ast.AssignStmt) {
	if s.Tok != token.ASSIGN && s.Tok != token.DEFINE {
		// op-assign
		lv := ex.lvalue(s.Lhs[0])
		a := ex.load(lv)
		b := ex.eval(s.Rhs[0])
		var op token.Token
		switch s.Tok {
		case token.ADD_ASSIGN:
			op = token.ADD
		case token.SUB_ASSIGN:
			op = token.SUB
		case token.MUL_ASSIGN:
			op = token.MUL
		case token.QUO_ASSIGN:
			op = token.QUO
		case token.REM_ASSIGN:
			op = token.REM
		case token.AND_ASSIGN:
			op = token.AND
		case token.OR_ASSIGN:
			op = token.OR
		case token.XOR_ASSIGN:
			op = token.XOR
		case token.SHL_ASSIGN:
			op = token.SHL
		case token.SHR_ASSIGN:
			op = token.SHR
		case token.AND_NOT_ASSIGN:
			op = token.AND_NOT
		}
		if isString(lv.typ) && op == token.ADD {
			ex.store(lv, Val{ex.concat(a.T, b.T), lv.typ})
			return
		}
		if isFloat(lv.typ) {
			ex.store(lv, Val{ex.fresh("flt", SInt), lv.typ})
			return
		}
		r := ex.arith(op, a.T, b.T, lv.typ, s.Lhs[0], s.Rhs[0], exprString(s.Lhs[0])+s.Tok.String()+exprString(s.Rhs[0]))
		ex.store(lv, Val{r, lv.typ})
		return
	}
	var vals []Val
	if len(s.Rhs) == 1 && len(s.Lhs) > 1 {
		vals = ex.evalMulti(s.Rhs[0], len(s.Lhs))
	} else {
		for i, r := range s.Rhs {
			v := ex.eval(r)
			// name closures after the variable they are bound to
			if id, ok := s.Lhs[i].(*ast.Ident); ok {
				if c, ok := ex.closures[v.T.String()]; ok && c.name == "" {
					c.name = id.Name
				}
			}
			vals = append(vals, v)
		}
	}
	if len(s.Lhs) == len(s.Rhs) {
		for i, l := range s.Lhs {
			ex.recordView(l, s.Rhs[i])
		}
	}
	for i, l := range s.Lhs {
		if s.Tok == token.DEFINE {
			if id, ok := l.(*ast.Ident); ok {
				if _, isDef := ex.info().Defs[id]; isDef && ex.info().Defs[id] != nil {
					ex.define(id, vals[i])
					continue
				}
			}
		}
		lv := ex.lvalue(l)
		ex.store(lv, vals[i])
	}
}

func sameEnv(a, b *State) bool {
	if len(a.env) != len(b.env) {
		return false
	}
	for k, v := range a.env {
		if b.env[k] != v {
			return false
		}
	}
	return true
}

func (ex *Exec) execIf(s *ast.IfStmt) {
	if s.Init != nil {
		ex.execStmt(s.Init)
	}
	c := ex.eval(s.Cond).T
	base := ex.st
	thenSt := ex.branch(base, c, func() { ex.execBlock(s.Body.List) })
	elseSt := ex.branch(base, Not(c), func() {
		if s.Else != nil {
			ex.execStmt(s.Else)
		}
	})
	ex.st = ex.mergeBack(base, thenSt, elseSt)
}

// mergeBack merges branch states; if nothing changed it restores the base state (keeps path conditions small).
func (ex *Exec) mergeBack(base *State, sts ...*State) *State {
	allSame := true
	for _, s := range sts {
		if s.dead || !ex.untouched[s] || !sameEnv(s, base) {
			allSame = false
			break
		}
	}
	if allSame {
		return base
	}
	return ex.merge(sts)
}

func (ex *Exec) execReturn(s *ast.ReturnStmt) {
	fr := ex.frames[len(ex.frames)-1]
	if len(s.Results) == 1 && len(fr.resKeys) > 1 {
		vals := ex.evalMulti(s.Results[0], len(fr.resKeys))
		for i, k := range fr.resKeys {
			ex.st.env[k] = ex.coerce(vals[i], fr.resTyps[i]).T
		}
	} else if len(s.Results) > 0 {
		var vals []Val
		for i, r := range s.Results {
			vals = append(vals, ex.coerce(ex.eval(r), fr.resTyps[i]))
		}
		for i, k := range fr.resKeys {
			ex.st.env[k] = vals[i].T
		}
	}
	if ex.st.dead {
		return
	}
	xs := ex.st.clone()
	xs.retPos = s.Pos()
	fr.exits = append(fr.exits, xs)
	ex.st.dead = true
	ex.st.pc = False
}

func (ex *Exec) findLoop(label string, forContinue bool) *loopFrame {
	for i := len(ex.loops) - 1; i >= 0; i-- {
		lf := ex.loops[i]
		if label != "" {
			if lf.label == label {
				return lf
			}
			continue
		}
		if forContinue && lf.isSwitch {
			continue
		}
		return lf
	}
	return nil
}

func (ex *Exec) execBranch(s *ast.BranchStmt) {
	label := ""
	if s.Label != nil {
		label = s.Label.Name
	}
	switch s.Tok {
	case token.BREAK:
		lf := ex.findLoop(label, false)
		if lf == nil {
			ex.errorf("break outside loop")
			return
		}
		lf.breaks = append(lf.breaks, ex.st.clone())
		ex.st.dead = true
		ex.st.pc = False
	case token.CONTINUE:
		lf := ex.findLoop(label, true)
		if lf == nil {
			ex.errorf("continue outside loop")
			return
		}
		lf.continues = append(lf.continues, ex.st.clone())
		ex.st.dead = true
		ex.st.pc = False
	case token.GOTO:
		if ex.gotoHandler != nil {
			ex.gotoHandler(label)
			return
		}
		ex.errorf("out of subset: goto")
	case token.FALLTHROUGH:
		ex.errorf("out of subset: fallthrough")
	}
}

func (ex *Exec) execDefer(s *ast.DeferStmt) {
	fr := ex.frames[len(ex.frames)-1]
	d := deferred{call: s.Call}
	if lit, ok := ast.Unparen(s.Call.Fun).(*ast.FuncLit); ok {
		d.lit = lit
	} else {
		// arguments (and receiver) are evaluated now
		if sel, ok := ast.Unparen(s.Call.Fun).(*ast.SelectorExpr); ok {
			if selInfo, ok := ex.info().Selections[sel]; ok && selInfo.Kind() == types.MethodVal {
				v := ex.eval(sel.X)
				d.recv = &v
			}
		}
		for _, a := range s.Call.Args {
			d.args = append(d.args, ex.eval(a))
		}
	}
	fr.defers = append(fr.defers, d)
}

// ---- switch ----

func (ex *Exec) execSwitch(s *ast.SwitchStmt) {
	if s.Init != nil {
		ex.execStmt(s.Init)
	}
	var tag *Val
	if s.Tag != nil {
		v := ex.eval(s.Tag)
		tag = &v
	}
	lf := &loopFrame{label: ex.pendingLabel, isSwitch: true}
	ex.pendingLabel = ""
	ex.loops = append(ex.loops, lf)
	base := ex.st
	var outs []*State
	notPrev := True
	var defaultClause *ast.CaseClause
	for _, cc := range s.Body.List {
		cl := cc.(*ast.CaseClause)
		if cl.List == nil {
			defaultClause = cl
			continue
		}
		// evaluate case conditions under "no previous case matched"
		var cond *T
		pre := ex.branch(base, notPrev, func() {
			var cs []*T
			for _, ce := range cl.List {
				v := ex.eval(ce)
				if tag != nil {
					vv := ex.coerce(v, tag.Typ)
					cs = append(cs, ex.valueEq(tag.T, vv.T, tag.Typ))
				} else {
					cs = append(cs, v.T)
				}
			}
			cond = Or(cs...)
		})
		_ = pre
		out := ex.branch(base, And(notPrev, cond), func() { ex.execBlock(cl.Body) })
		outs = append(outs, out)
		notPrev = And(notPrev, Not(cond))
	}
	out := ex.branch(base, notPrev, func() {
		if defaultClause != nil {
			ex.execBlock(defaultClause.Body)
		}
	})
	outs = append(outs, out)
	ex.loops = ex.loops[:len(ex.loops)-1]
	outs = append(outs, lf.breaks...)
	ex.st = ex.mergeBack(base, outs...)
}

func (ex *Exec) execTypeSwitch(s *ast.TypeSwitchStmt) {
	if s.Init != nil {
		ex.execStmt(s.Init)
	}
	var x ast.Expr
	var bind *ast.Ident
	switch a := s.Assign.(type) {
	case *ast.AssignStmt:
		bind = a.Lhs[0].(*ast.Ident)
		x = a.Rhs[0].(*ast.TypeAssertExpr).X
	case *ast.ExprStmt:
		x = a.X.(*ast.TypeAssertExpr).X
	}
	v := ex.eval(x)
	lf := &loopFrame{label: ex.pendingLabel, isSwitch: true}
	ex.pendingLabel = ""
	ex.loops = append(ex.loops, lf)
	base := ex.st
	var outs []*State
	notPrev := True
	var defaultClause *ast.CaseClause
	for _, cc := range s.Body.List {
		cl := cc.(*ast.CaseClause)
		if cl.List == nil {
			defaultClause = cl
			continue
		}
		var cs []*T
		var single types.Type
		for _, te := range cl.List {
			t := ex.typeOf(te)
			if b, ok := t.(*types.Basic); ok && b.Kind() == types.UntypedNil {
				cs = append(cs, Eq(v.T, I(0)))
				continue
			}
			if isInterface(t) {
				cs = append(cs, ex.fresh("implements", SBool))
				continue
			}
			cs = append(cs, And(Ne(v.T, I(0)), Eq(App("dyntype", SInt, v.T), typeID(t))))
			single = t
		}
		cond := Or(cs...)
		out := ex.branch(base, And(notPrev, cond), func() {
			if bind != nil {
				if obj, ok := ex.info().Implicits[cl].(*types.Var); ok {
					var bv *T
					if len(cl.List) == 1 && single != nil && !isPointer(single) {
						bv = App(ifacePayloadFn(sortOf(single)), sortOf(single), v.T)
					} else {
						bv = v.T
					}
					ex.st.env[ex.keyOf(obj)] = bv
				}
			}
			ex.execBlock(cl.Body)
			if bind != nil {
				// the clause's variable goes out of scope (the clauses' variables share name and position)
				if obj, ok := ex.info().Implicits[cl].(*types.Var); ok {
					delete(ex.st.env, ex.keyOf(obj))
				}
			}
		})
		outs = append(outs, out)
		notPrev = And(notPrev, Not(cond))
	}
	out := ex.branch(base, notPrev, func() {
		if defaultClause != nil {
			if bind != nil {
				if obj, ok := ex.info().Implicits[defaultClause].(*types.Var); ok {
					ex.st.env[ex.keyOf(obj)] = v.T
				}
			}
			ex.execBlock(defaultClause.Body)
			if bind != nil {
				if obj, ok := ex.info().Implicits[defaultClause].(*types.Var); ok {
					delete(ex.st.env, ex.keyOf(obj))
				}
			}
		}
	})
	outs = append(outs, out)
	ex.loops = ex.loops[:len(ex.loops)-1]
	outs = append(outs, lf.breaks...)
	ex.st = ex.mergeBack(base, outs...)
}

// ---- loops ----

type loopSpec struct {
	n    int
	lc   *LoopContract
	pos  token.Pos
	hint string
}

func (ex *Exec) nextLoop(pos token.Pos) *loopSpec {
	// loop ordinals are per top-level function under verification, in source order;
	// inlined callees get ordinals in a separate namespace keyed by function name.
	n := ex.loopOrdinal(pos)
	ls := &loopSpec{n: n, pos: pos}
	if fc := ex.curContract(); fc != nil {
		ls.lc = fc.Loops[n]
	}
	return ls
}

// discoverModified finds env keys modified by running body (iterated to a fixpoint with havoc).
func (ex *Exec) discoverModified(run func()) map[string]bool {
	mod := map[string]bool{}
	for iter := 0; iter < 6; iter++ {
		savedSt := ex.st
		nf := len(ex.facts)
		no := len(ex.obls)
		fr := ex.frames[len(ex.frames)-1]
		nexits := make([]int, len(ex.frames))
		for i, f := range ex.frames {
			nexits[i] = len(f.exits)
		}
		ndef := len(fr.defers)
		nerr := len(ex.errs)
		savedLoops := ex.loops
		// outer loop frames must not collect break/continue states from the dry run
		var savedBC [][2]int
		for _, lf := range ex.loops {
			savedBC = append(savedBC, [2]int{len(lf.breaks), len(lf.continues)})
		}
		ex.quiet++
		st := savedSt.clone()
		ex.st = st
		// havoc what we know so far
		for k := range mod {
			ex.havocKey(k)
		}
		entry := ex.st.clone()
		run()
		ex.quiet--
		// collect: compare every state that left the body
		changed := false
		collect := func(s *State) {
			for k, v := range s.env {
				if ev := ex.get(entry, k); ev != nil && ev != v && !mod[k] {
					mod[k] = true
					changed = true
				}
			}
		}
		// only what reaches the loop head again matters for the next iteration: the state at the end of the body (merged
		// with this loop's continues). What is changed on a path that leaves the loop (break, return, continue of an outer
		// loop) travels with that path's own state and is not havocked at the head.
		collect(ex.st)
		ex.dryStates = nil
		for i, lf := range ex.loops {
			if i < len(savedBC) {
				lf.breaks = lf.breaks[:savedBC[i][0]]
				lf.continues = lf.continues[:savedBC[i][1]]
			}
		}
		for i, f := range ex.frames {
			f.exits = f.exits[:nexits[i]]
		}
		fr.defers = fr.defers[:ndef]
		ex.facts = ex.facts[:nf]
		ex.factScopes = ex.factScopes[:nf]
		ex.obls = ex.obls[:no]
		ex.loops = savedLoops
		ex.st = savedSt
		if len(ex.errs) > nerr {
			// keep the first copy of each error only
			ex.errs = dedupe(ex.errs)
		}
		if !changed {
			break
		}
	}
	return mod
}

func dedupe(xs []string) []string {
	seen := map[string]bool{}
	var out []string
	for _, x := range xs {
		if !seen[x] {
			seen[x] = true
			out = append(out, x)
		}
	}
	return out
}

// havocKey replaces the value of an env key by a fresh constant (with type facts).
func (ex *Exec) havocKey(k string) {
	cur := ex.get(ex.st, k)
	if cur == nil {
		return
	}
	name := strings.SplitN(k, "@", 2)[0]
	nv := ex.fresh("h."+name, cur.S)
	if t, ok := ex.keyType[k]; ok && !strings.HasPrefix(k, "$") {
		ex.assume(ex.typeFact(t, nv))
	} else if cur.S == SSlice {
		ex.assume(App("wfS", SBool, nv))
	}
	if k == "$alloc" {
		ex.assume(Le(cur, nv))
	}
	if strings.HasPrefix(k, "$") {
		ex.heapWF(k, nv, false)
	}
	ex.st.env[k] = nv
}

type loopParts struct {
	pos      token.Pos
	text     string
	cond     func() *T // evaluates the loop condition in ex.st (may emit obligations)
	bodyPre  func()    // runs at the start of each iteration (range variable binding)
	body     []ast.Stmt
	post     func()
	autoInv  func() *T // built-in invariant (range index bounds)
	autoVar  func() *T // default variant
	scopePos token.Pos // position used to resolve identifiers in invariants (inside the loop's own scope)
	extraMod []string
	bindIdx  func(sc *specCtx)
}

func (ex *Exec) execLoop(lp *loopParts) {
	ls := ex.nextLoop(lp.pos)
	label := ex.pendingLabel
	ex.pendingLabel = ""
	lname := fmt.Sprintf("loop%d", ls.n)
	if ls.lc != nil && ls.lc.Hint != "" && !strings.Contains(noSpace(lp.text), noSpace(ls.lc.Hint)) {
		// the hint documents which loop the clauses were written for; a changed condition is not contract drift
		ex.warnings[fmt.Sprintf("%s %s: text hint %q differs from the loop condition %q", ex.name, lname, ls.lc.Hint, lp.text)] = true
	}
	var pathCheck func(n int)
	pathsChecked := false
	runIter := func(lf *loopFrame) {
		c := lp.cond()
		base := ex.st
		ex.nScope++
		scopeID := ex.nScope
		bodySt := ex.branch(base, c, func() {
			if ex.st.scopes == nil {
				ex.st.scopes = map[int]bool{}
			}
			ex.st.scopes[scopeID] = true
			if lp.bodyPre != nil {
				lp.bodyPre()
			}
			ex.execBlock(lp.body)
		})
		exitSt := base.clone()
		exitSt.pc = And(base.pc, Not(c))
		ex.dryStates = append(ex.dryStates, exitSt)
		all := append([]*State{bodySt}, lf.continues...)
		lf.continues = nil
		// the invariants are checked at the end of every path through the body separately (end of body, each continue)
		if pathCheck != nil && ex.quiet == 0 {
			live := 0
			for _, s := range all {
				if !s.dead {
					live++
				}
			}
			if live > 1 {
				n := 0
				for _, s := range all {
					if s.dead {
						continue
					}
					n++
					ex.st = s.clone()
					if lp.post != nil {
						lp.post()
					}
					if !ex.st.dead {
						pathCheck(n)
					}
				}
				pathsChecked = true
			}
		}
		ex.st = ex.merge(all)
		if !ex.st.dead && lp.post != nil {
			lp.post()
		}
	}
	// 1. discover modified keys
	mod := ex.discoverModified(func() {
		lf := &loopFrame{label: label}
		ex.loops = append(ex.loops, lf)
		runIter(lf)
		ex.dryStates = append(ex.dryStates, lf.breaks...)
		ex.loops = ex.loops[:len(ex.loops)-1]
	})
	for _, k := range lp.extraMod {
		mod[k] = true
	}
	// 2. invariants on entry
	entry := ex.st.clone()
	ex.entryStack = append(ex.entryStack, entry)
	defer func() { ex.entryStack = ex.entryStack[:len(ex.entryStack)-1] }()
	if lp.scopePos == token.NoPos {
		lp.scopePos = lp.pos
	}
	invSuffix := ""
	invs := func(kind string) {
		sc := ex.specHere(lp.scopePos)
		sc.entry = entry
		if lp.bindIdx != nil {
			lp.bindIdx(sc)
		}
		if lp.autoInv != nil {
			g := lp.autoInv()
			if kind == "assume" {
				ex.assume(g)
			} else {
				ex.assert("T", lname+"-index-"+kind+invSuffix, g)
			}
		}
		if ls.lc == nil {
			return
		}
		for i, c := range ls.lc.Invariants {
			g, ok := ex.specTry(sc, c)
			lab := c.Label
			if lab == "" {
				lab = fmt.Sprint(i + 1)
			}
			if !ok {
				// the invariant names something the code no longer has: nothing to assume; as an obligation it fails
				if kind == "assume" || (c.FromBase && ex.skipSafety) || ex.quiet > 0 {
					continue
				}
				lab += ":not-evaluable"
			}
			if kind == "assume" || (c.FromBase && ex.skipSafety) {
				ex.assume(g)
			} else {
				ex.curPos = lp.pos
				ex.assert("I", lname+"-inv-"+kind+"["+lab+"]"+invSuffix, g)
			}
		}
	}
	invs("entry")
	var heapKeys []string
	for k := range mod {
		if strings.HasPrefix(k, "$H.") || strings.HasPrefix(k, "$G.") || strings.HasPrefix(k, "$P.") || strings.HasPrefix(k, "$M.") {
			heapKeys = append(heapKeys, k)
		}
	}
	sortStrings(heapKeys)
	// 3. havoc
	var keys []string
	for k := range mod {
		keys = append(keys, k)
	}
	sortStrings(keys)
	if mod["$alloc"] {
		ex.havocKey("$alloc")
	}
	for _, k := range keys {
		if strings.HasPrefix(k, "$cap.") {
			// a captured call result belongs to the iteration that made the call: at the head of an arbitrary iteration
			// it is the zero value ("no such call yet")
			if t, ok := ex.keyType[k]; ok {
				ex.st.env[k] = ex.zeroValue(t)
			} else {
				delete(ex.st.env, k)
			}
			continue
		}
		if k != "$alloc" {
			ex.havocKey(k)
		}
	}
	invs("assume")
	if len(heapKeys) > 0 {
		ex.assume(ex.frameFormula(ex.st, heapKeys))
	}
	variant := func() *T {
		if ls.lc != nil && ls.lc.Decreases != nil {
			sc := ex.specHere(lp.scopePos)
			sc.entry = entry
			if lp.bindIdx != nil {
				lp.bindIdx(sc)
			}
			nerr := len(ex.errs)
			v, _ := ex.specEval(sc, ls.lc.Decreases.Expr)
			if len(ex.errs) > nerr {
				// the variant names something the code no longer has: as good as no variant
				for _, e := range ex.errs[nerr:] {
					ex.warnings["contract clause not evaluable on this code: "+e] = true
				}
				ex.errs = ex.errs[:nerr]
				return nil
			}
			return v.T
		}
		if lp.autoVar != nil {
			return lp.autoVar()
		}
		return nil
	}
	v0 := variant()
	if v0 == nil && ex.curContract() != nil && ex.curContract().Terminates && ex.quiet == 0 {
		// termination is claimed but no variant is known for this loop: an undischargeable obligation
		ex.curPos = lp.pos
		ex.assert("T", lname+"-no-variant", False)
	}
	head := ex.st.clone()
	// 4. one arbitrary iteration
	lf := &loopFrame{label: label}
	ex.loops = append(ex.loops, lf)
	ex.dryStates = nil
	pathCheck = func(n int) {
		ex.curPos = lp.pos
		invSuffix = fmt.Sprintf("@path%d", n)
		invs("preserved")
		invSuffix = ""
	}
	runIter(lf)
	pathCheck = nil
	ex.dryStates = nil
	ex.loops = ex.loops[:len(ex.loops)-1]
	if !ex.st.dead {
		ex.curPos = lp.pos
		if pathsChecked {
			// established on every path above
			ex.quiet++
			invs("assume")
			ex.quiet--
		} else {
			invs("preserved")
		}
		if v0 != nil {
			v1 := variant()
			ex.curPos = lp.pos
			ex.assert("T", lname+"-decreases", And(Le(I(0), v0), Lt(v1, v0)))
		}
	}
	// 5. exit state
	ex.st = head
	c := lp.cond()
	exit := ex.st.clone()
	exit.pc = And(ex.st.pc, Not(c))
	outs := append([]*State{exit}, lf.breaks...)
	ex.st = ex.merge(outs)
}

func normSpace(s string) string { return strings.Join(strings.Fields(s), " ") }
func noSpace(s string) string   { return strings.Join(strings.Fields(s), "") }

func (ex *Exec) nodeText(n ast.Node) string {
	return ex.withOriginalNames(n, func() string { return ex.prog.nodeSource(n) })
}

func (ex *Exec) execFor(s *ast.ForStmt) {
	if s.Init != nil {
		ex.execStmt(s.Init)
	}
	condText := ""
	if s.Cond != nil {
		condText = exprString(s.Cond)
	}
	lp := &loopParts{pos: s.Pos(), text: condText, body: s.Body.List, scopePos: s.Body.Lbrace}
	lp.cond = func() *T {
		if s.Cond == nil {
			return True
		}
		return ex.eval(s.Cond).T
	}
	if s.Post != nil {
		lp.post = func() { ex.execStmt(s.Post) }
	}
	// default variant for "for ...; i < X; i++" / "i += c": X - i
	if be, ok := ast.Unparen(s.Cond).(*ast.BinaryExpr); ok && s.Cond != nil && (be.Op == token.LSS || be.Op == token.LEQ) && s.Post != nil {
		if id, ok := ast.Unparen(be.X).(*ast.Ident); ok {
			incr := false
			switch p := s.Post.(type) {
			case *ast.IncDecStmt:
				if pid, ok := p.X.(*ast.Ident); ok && pid.Name == id.Name && p.Tok == token.INC {
					incr = true
				}
			case *ast.AssignStmt:
				if pid, ok := p.Lhs[0].(*ast.Ident); ok && pid.Name == id.Name && p.Tok == token.ADD_ASSIGN {
					if c, ok := ex.constInt(p.Rhs[0]); ok && c > 0 {
						incr = true
					}
				}
			}
			if incr {
				lp.autoVar = func() *T {
					saved := ex.quiet
					ex.quiet++
					a := ex.eval(be.X)
					b := ex.eval(be.Y)
					ex.quiet = saved
					return Add(Sub(b.T, a.T), I(1))
				}
			}
		}
	}
	// canonical counting loop "for i := a; i < X; i++" whose body neither assigns i nor the variables of X: the built-in
	// invariant a <= i <= X, and i is also known as riN to the loop's contract when a is 0 (as in a range loop)
	if id, lo, hi, ok := ex.countingLoop(s); ok {
		obj, _ := ex.info().ObjectOf(id).(*types.Var)
		loT := ex.eval(lo).T
		n := ex.loopOrdinalPeek(s.Pos())
		lp.autoInv = func() *T {
			saved := ex.quiet
			ex.quiet++
			i := ex.eval(id)
			h := ex.eval(hi)
			ex.quiet = saved
			// (an upper bound below the start means the loop does not run at all)
			return And(Le(loT, i.T), Or(Le(i.T, h.T), Lt(h.T, loT)))
		}
		if z, isNum := loT.isNum(); isNum && z.Sign() == 0 && obj != nil && !ex.boxed[obj] {
			key := ex.keyOf(obj)
			lp.bindIdx = func(sc *specCtx) {
				sc.stateVars[fmt.Sprintf("ri%d", n)] = stateVar{key, typInt}
			}
		}
	}
	// default variant for "for !x.Empty()"
	if u, ok := ast.Unparen(s.Cond).(*ast.UnaryExpr); ok && s.Cond != nil && u.Op == token.NOT {
		if call, ok := ast.Unparen(u.X).(*ast.CallExpr); ok {
			if sel, ok := call.Fun.(*ast.SelectorExpr); ok && sel.Sel.Name == "Empty" && len(call.Args) == 0 {
				lp.autoVar = func() *T {
					saved := ex.quiet
					ex.quiet++
					v := ex.eval(sel.X)
					ex.quiet = saved
					if isPointer(v.Typ) {
						v = ex.derefLoad(v, nil)
					}
					return SLen(v.T)
				}
			}
		}
	}
	ex.execLoop(lp)
}

func (ex *Exec) execRange(s *ast.RangeStmt) {
	xt := ex.typeOf(s.X)
	n := ex.loopOrdinalPeek(s.Pos())
	idxKey := fmt.Sprintf("$ri%d.%s", n, ex.name)
	ex.heapSort[idxKey] = SInt
	var lenT *T
	var x Val
	var elem types.Type
	switch u := xt.Underlying().(type) {
	case *types.Slice, *types.Array:
		x = ex.eval(s.X)
		lenT = SLen(x.T)
		elem = elemTypeOf(xt)
	case *types.Basic:
		if u.Info()&types.IsInteger != 0 {
			x = ex.eval(s.X)
			lenT = x.T
		} else {
			ex.errorf("out of subset: range over %s", xt)
			return
		}
	case *types.Chan:
		ex.eval(s.X)
		ex.assumptions["channels: a received value is arbitrary (what was sent is not tracked)"] = true
		ex.execRangeArbitrary(s, []types.Type{u.Elem()}, nil)
		return
	case *types.Signature:
		ex.execRangeFunc(s, u)
		return
	default:
		ex.errorf("out of subset: range over %s", xt)
		return
	}
	ex.st.env[idxKey] = I(0)
	lp := &loopParts{pos: s.Pos(), text: "range " + exprString(s.X), body: s.Body.List, scopePos: s.Body.Lbrace}
	lp.cond = func() *T { return Lt(ex.get(ex.st, idxKey), lenT) }
	lp.autoInv = func() *T { i := ex.get(ex.st, idxKey); return And(Le(I(0), i), Le(i, lenT)) }
	lp.autoVar = func() *T { return Sub(lenT, ex.get(ex.st, idxKey)) }
	lp.bodyPre = func() {
		i := ex.get(ex.st, idxKey)
		bind := func(e ast.Expr, v Val) {
			if e == nil {
				return
			}
			id, ok := e.(*ast.Ident)
			if ok && id.Name == "_" {
				return
			}
			if s.Tok == token.DEFINE && ok {
				ex.define(id, v)
				return
			}
			ex.store(ex.lvalue(e), v)
		}
		bind(s.Key, Val{i, types.Typ[types.Int]})
		if s.Value != nil && elem != nil {
			v := ex.elemAt(x.T, elem, i)
			if !isByte(elem) {
				ex.assume(ex.typeFact(elem, v))
			}
			bind(s.Value, Val{v, elem})
		}
	}
	lp.post = func() { ex.st.env[idxKey] = Add(ex.get(ex.st, idxKey), I(1)) }
	lp.bindIdx = func(sc *specCtx) {
		sc.stateVars[fmt.Sprintf("ri%d", n)] = stateVar{idxKey, types.Typ[types.Int]}
		sc.vars[fmt.Sprintf("rx%d", n)] = x
	}
	if ex.rangeOps == nil {
		ex.rangeOps = map[string]Val{}
	}
	ex.rangeOps[idxKey] = x
	ex.execLoop(lp)
	delete(ex.rangeOps, idxKey)
	delete(ex.st.env, idxKey)
}

// boxedStructRef returns the heap reference of an address-taken local struct variable.
func (ex *Exec) boxedStructRef(x ast.Expr) (*T, bool) {
	id, ok := ast.Unparen(x).(*ast.Ident)
	if !ok {
		return nil, false
	}
	o, ok := ex.info().ObjectOf(id).(*types.Var)
	if !ok || !ex.boxed[o] || isPointer(o.Type()) || structOf(o.Type()) == nil {
		return nil, false
	}
	ref := ex.st.env[ex.keyOf(o)]
	if ref == nil {
		return nil, false
	}
	return ref, true
}

// execGo handles "go f(...)". When f is a function literal its body is executed once, from the state at the go
// statement (thread-modular, no interference: what other goroutines do to shared memory in the meantime is not modelled),
// so that the obligations inside goroutine bodies are generated; the effects of the body are then discarded and the
// parent continues from the state it had.
func (ex *Exec) execGo(s *ast.GoStmt) {
	lit, ok := ast.Unparen(s.Call.Fun).(*ast.FuncLit)
	if !ok || ex.fc == nil || !ex.fc.GoBodies {
		ex.unmodelled["go statement at "+ex.posString(s.Pos())+" (goroutine body not part of the sequential semantics)"] = true
		return
	}
	ex.assumptions["goroutine bodies are verified one by one from the state at their go statement: no interference on shared memory, variables captured by a goroutine are not reassigned afterwards"] = true
	saved := ex.st
	ex.st = saved.clone()
	var args []Val
	for _, a := range s.Call.Args {
		args = append(args, ex.eval(a))
	}
	sig, _ := ex.typeOf(lit).(*types.Signature)
	if sig != nil {
		savedHook := ex.exitHook
		ex.exitHook = nil
		ex.inlineBody("go@"+ex.posString(lit.Pos()), sig, lit.Type, lit.Body, nil, nil, args, ex.pkg, ex.curContract(), false)
		ex.exitHook = savedHook
	}
	ex.st = saved
}

// execSelect executes every communication clause from the state before the select (the choice is arbitrary).
func (ex *Exec) execSelect(s *ast.SelectStmt) {
	base := ex.st
	choice := ex.fresh("select", SInt)
	var outs []*State
	lf := &loopFrame{isSwitch: true}
	ex.loops = append(ex.loops, lf)
	for i, c := range s.Body.List {
		cc := c.(*ast.CommClause)
		st := ex.branch(base, Eq(choice, I(int64(i))), func() {
			if cc.Comm != nil {
				ex.execStmt(cc.Comm)
			}
			ex.execBlock(cc.Body)
		})
		outs = append(outs, st)
	}
	ex.loops = ex.loops[:len(ex.loops)-1]
	outs = append(outs, lf.breaks...)
	ex.st = ex.merge(outs)
	ex.assume(And(Le(I(0), choice), Lt(choice, I(int64(len(s.Body.List))))))
}

// bindRangeVar binds a range variable (define or assign).
func (ex *Exec) bindRangeVar(s *ast.RangeStmt, e ast.Expr, v Val) {
	if e == nil {
		return
	}
	id, ok := e.(*ast.Ident)
	if ok && id.Name == "_" {
		return
	}
	if s.Tok == token.DEFINE && ok {
		ex.define(id, v)
		return
	}
	ex.store(ex.lvalue(e), v)
}

// execRangeArbitrary: a loop that runs an arbitrary number of times with arbitrary well-typed values for its variables
// (range over a channel, or over a sequence produced by a callee); assume adds what is known about the values.
func (ex *Exec) execRangeArbitrary(s *ast.RangeStmt, elems []types.Type, assume func(vals []Val)) {
	lp := &loopParts{pos: s.Pos(), text: "range " + exprString(s.X), body: s.Body.List, scopePos: s.Body.Lbrace}
	lp.cond = func() *T { return ex.fresh("more", SBool) }
	lp.bodyPre = func() {
		var vals []Val
		for _, t := range elems {
			vals = append(vals, ex.havocTyped(t, "item"))
		}
		if assume != nil {
			assume(vals)
		}
		if len(vals) > 0 {
			ex.bindRangeVar(s, s.Key, vals[0])
		}
		if len(vals) > 1 {
			ex.bindRangeVar(s, s.Value, vals[1])
		}
	}
	ex.execLoop(lp)
}

// execRangeFunc: "for x := range seq". When seq is a function literal of the function under verification the loop is
// executed as Go defines it: the literal's body runs with a yield that executes the loop body (break makes yield return
// false). Otherwise (a sequence returned by a callee) the loop runs an arbitrary number of times with arbitrary values
// that satisfy those requires-clauses of the callee's yield contract that can be evaluated in the caller.
func (ex *Exec) execRangeFunc(s *ast.RangeStmt, sig *types.Signature) {
	if sig.Params().Len() != 1 {
		ex.errorf("out of subset: range over %s", sig)
		return
	}
	ysig, _ := sig.Params().At(0).Type().Underlying().(*types.Signature)
	if ysig == nil {
		ex.errorf("out of subset: range over %s", sig)
		return
	}
	var elems []types.Type
	for i := 0; i < ysig.Params().Len(); i++ {
		elems = append(elems, ysig.Params().At(i).Type())
	}
	hasReturn := false
	ast.Inspect(s.Body, func(n ast.Node) bool {
		if _, ok := n.(*ast.FuncLit); ok {
			return false
		}
		if _, ok := n.(*ast.ReturnStmt); ok {
			hasReturn = true
		}
		return true
	})
	// the callee, if the operand is a call of a contracted function
	var callFC *FuncContract
	var callArgs []Val
	var callNames []string
	if call, ok := ast.Unparen(s.X).(*ast.CallExpr); ok {
		if fn := ex.calleeOf(call); fn != nil {
			if fc := ex.prog.contracts.Funcs[ex.contractKey(fn)]; fc != nil && fc.IterBody {
				callFC = fc
				fsig := fn.Type().(*types.Signature)
				if sel, ok := call.Fun.(*ast.SelectorExpr); ok && fsig.Recv() != nil {
					callArgs = append(callArgs, ex.eval(sel.X))
					callNames = append(callNames, fsig.Recv().Name())
				}
				for i, a := range call.Args {
					callArgs = append(callArgs, ex.eval(a))
					if i < fsig.Params().Len() {
						callNames = append(callNames, fsig.Params().At(i).Name())
					}
				}
			}
		}
	}
	if callFC == nil {
		seq := ex.eval(s.X)
		if os.Getenv("GOVC_DEBUG") != "" {
			fmt.Fprintf(os.Stderr, "rangefunc %s: seq=%s known=%v hasReturn=%v\n", exprString(s.X), seq.T.String(), ex.closures[seq.T.String()] != nil, hasReturn)
		}
		if c, ok := ex.closures[seq.T.String()]; ok && c.lit != nil && !hasReturn {
			ex.runProducer(s, c, sig, elems)
			return
		}
		ex.execRangeArbitrary(s, elems, nil)
		return
	}
	pc := callFC.Params["yield"]
	ex.assumptions["a sequence returned by "+callFC.Key+" yields values that satisfy the requires-clauses of its yield contract (proved where the sequence is defined)"] = true
	ex.execRangeArbitrary(s, elems, func(vals []Val) {
		if pc == nil {
			return
		}
		for _, c := range pc.Requires {
			usesGhost := false
			for g := range ex.prog.contracts.Ghosts {
				if strings.Contains(c.Text, g+"(") {
					usesGhost = true
				}
			}
			if usesGhost {
				continue
			}
			sc := &specCtx{ex: ex, st: ex.st, vars: map[string]Val{}, stateVars: map[string]stateVar{}, pkg: ex.pkgTypes(callFC.Pkg), where: c.Line}
			for i, n := range callNames {
				if n != "" && i < len(callArgs) {
					sc.vars[n] = callArgs[i]
				}
			}
			for i, n := range pc.Params {
				if i < len(vals) {
					sc.vars[n] = vals[i]
				}
			}
			nerr := len(ex.errs)
			g := ex.specBool(sc, c)
			if len(ex.errs) > nerr {
				// the clause names something of the callee's body: not usable here
				ex.errs = ex.errs[:nerr]
				continue
			}
			ex.assume(g)
		}
	})
}

// runProducer executes a sequence literal with a yield that runs the loop body.
func (ex *Exec) runProducer(s *ast.RangeStmt, c *closure, sig *types.Signature, elems []types.Type) {
	lf := &loopFrame{label: ex.pendingLabel}
	ex.pendingLabel = ""
	yv := ex.fresh("clo", SInt)
	ex.assume(Lt(I(0), yv))
	resKey := fmt.Sprintf("$yield.%s", yv.String())
	ex.heapSort[resKey] = SBool
	ex.closures[yv.String()] = &closure{name: "yield", native: func(args []Val) []Val {
		ex.loops = append(ex.loops, lf)
		nb, nc := len(lf.breaks), len(lf.continues)
		if len(args) > 0 {
			ex.bindRangeVar(s, s.Key, args[0])
		}
		if len(args) > 1 {
			ex.bindRangeVar(s, s.Value, args[1])
		}
		ex.execBlock(s.Body.List)
		ex.loops = ex.loops[:len(ex.loops)-1]
		var outs []*State
		if !ex.st.dead {
			ex.st.env[resKey] = True
			outs = append(outs, ex.st)
		}
		for _, st := range lf.continues[nc:] {
			st.env[resKey] = True
			outs = append(outs, st)
		}
		for _, st := range lf.breaks[nb:] {
			st.env[resKey] = False
			outs = append(outs, st)
		}
		lf.continues = lf.continues[:nc]
		lf.breaks = lf.breaks[:nb]
		ex.st = ex.merge(outs)
		r := ex.get(ex.st, resKey)
		if r == nil {
			r = True
		}
		delete(ex.st.env, resKey)
		return []Val{{r, types.Typ[types.Bool]}}
	}}
	name := c.name
	if name == "" {
		name = "seq"
	}
	ex.inlineBody("rangefunc:"+name+"@"+ex.posString(s.Pos()), sig, c.lit.Type, c.lit.Body, nil, nil, []Val{{yv, sig.Params().At(0).Type()}}, ex.pkg, ex.curContract(), false)
	delete(ex.closures, yv.String())
}

// countingLoop recognises "for i := a; i < X; i++" (or i += 1) where the body assigns neither i nor any variable that X
// mentions, X is an identifier, a field selection or len of one, and a <= X holds trivially when the loop is entered
// (i < X is the loop condition, so only the upper bound at exit needs a <= X: we require a to be the constant 0 and X a
// length or an unsigned-or-nonnegative expression is not checked - the invariant is asserted at entry like any other).
func (ex *Exec) countingLoop(s *ast.ForStmt) (id *ast.Ident, lo, hi ast.Expr, ok bool) {
	init, isAssign := s.Init.(*ast.AssignStmt)
	if !isAssign || init.Tok != token.DEFINE || len(init.Lhs) != 1 || len(init.Rhs) != 1 {
		return nil, nil, nil, false
	}
	id, isIdent := init.Lhs[0].(*ast.Ident)
	if !isIdent {
		return nil, nil, nil, false
	}
	be, isBin := ast.Unparen(s.Cond).(*ast.BinaryExpr)
	if s.Cond == nil || !isBin || be.Op != token.LSS {
		return nil, nil, nil, false
	}
	if x, isX := ast.Unparen(be.X).(*ast.Ident); !isX || x.Name != id.Name {
		return nil, nil, nil, false
	}
	switch p := s.Post.(type) {
	case *ast.IncDecStmt:
		if pid, isP := p.X.(*ast.Ident); !isP || pid.Name != id.Name || p.Tok != token.INC {
			return nil, nil, nil, false
		}
	case *ast.AssignStmt:
		pid, isP := p.Lhs[0].(*ast.Ident)
		c, isC := ex.constInt(p.Rhs[0])
		if !isP || pid.Name != id.Name || p.Tok != token.ADD_ASSIGN || !isC || c != 1 {
			return nil, nil, nil, false
		}
	default:
		return nil, nil, nil, false
	}
	// X: ident, selector chain, or len(of one)
	hiExpr := ast.Unparen(be.Y)
	inner := hiExpr
	if call, isCall := inner.(*ast.CallExpr); isCall {
		if fn, isFn := call.Fun.(*ast.Ident); !isFn || fn.Name != "len" || len(call.Args) != 1 {
			return nil, nil, nil, false
		}
		inner = ast.Unparen(call.Args[0])
	}
	names := map[string]bool{id.Name: true}
	for {
		switch v := inner.(type) {
		case *ast.Ident:
			names[v.Name] = true
		case *ast.SelectorExpr:
			inner = ast.Unparen(v.X)
			names[v.Sel.Name] = true
			continue
		case *ast.BasicLit:
		default:
			return nil, nil, nil, false
		}
		break
	}
	// the body must not assign i or anything X mentions, nor take their address, nor call through closures that could
	assigned := false
	ast.Inspect(s.Body, func(n ast.Node) bool {
		switch st := n.(type) {
		case *ast.AssignStmt:
			for _, l := range st.Lhs {
				root := ast.Unparen(l)
				for {
					switch r := root.(type) {
					case *ast.SelectorExpr:
						if names[r.Sel.Name] {
							assigned = true
						}
						root = ast.Unparen(r.X)
						continue
					case *ast.IndexExpr:
						root = ast.Unparen(r.X)
						continue
					case *ast.StarExpr:
						assigned = true
					case *ast.Ident:
						if names[r.Name] {
							assigned = true
						}
					}
					break
				}
			}
		case *ast.IncDecStmt:
			if x, isX := ast.Unparen(st.X).(*ast.Ident); isX && names[x.Name] {
				assigned = true
			}
		case *ast.UnaryExpr:
			if st.Op == token.AND {
				if x, isX := ast.Unparen(st.X).(*ast.Ident); isX && names[x.Name] {
					assigned = true
				}
			}
		case *ast.RangeStmt:
			for _, e := range []ast.Expr{st.Key, st.Value} {
				if x, isX := e.(*ast.Ident); isX && st.Tok == token.ASSIGN && names[x.Name] {
					assigned = true
				}
			}
		}
		return true
	})
	if assigned {
		return nil, nil, nil, false
	}
	return id, init.Rhs[0], be.Y, true
}
