package main

import (
	"bytes"
	"context"
	"crypto/sha256"
	"fmt"
	"os"
	"os/exec"
	"path/filepath"
	"strings"
	"sync"
	"syscall"
	"time"
)

type solverSpec struct {
	name string
	args func(file string, timeoutSec int) []string
}

var solvers = []solverSpec{
	{"z3-new", func(f string, t int) []string { return []string{"z3-new", fmt.Sprintf("-T:%d", t), f} }},
	{"z3", func(f string, t int) []string { return []string{"z3", fmt.Sprintf("-T:%d", t), f} }},
	{"cvc5", func(f string, t int) []string {
		return []string{"cvc5", fmt.Sprintf("--tlimit=%d", t*1000), "--incremental", f}
	}},
	// more z3 runs with different random seeds: an unsat answer from any run is a proof
	{"z3-new/seed1", func(f string, t int) []string {
		return []string{"z3-new", fmt.Sprintf("-T:%d", t), "smt.random_seed=1", "sat.random_seed=1", f}
	}},
	{"z3-new/seed2", func(f string, t int) []string {
		return []string{"z3-new", fmt.Sprintf("-T:%d", t), "smt.random_seed=2", "sat.random_seed=2", "smt.arith.random_initial_value=true", f}
	}},
	{"z3-new/seed3", func(f string, t int) []string {
		return []string{"z3-new", fmt.Sprintf("-T:%d", t), "smt.random_seed=3", "smt.qi.eager_threshold=20", f}
	}},
}

type solveOut struct {
	result string // unsat, sat, unknown, timeout, error
	out    string
	secs   float64
	solver string
}

func runSolver(sp solverSpec, file string, timeoutSec int) solveOut {
	return runSolverCtx(context.Background(), sp, file, timeoutSec)
}

func runSolverCtx(parent context.Context, sp solverSpec, file string, timeoutSec int) solveOut {
	args := sp.args(file, timeoutSec)
	ctx, cancel := context.WithTimeout(parent, time.Duration(timeoutSec+5)*time.Second)
	defer cancel()
	cmd := exec.CommandContext(ctx, args[0], args[1:]...)
	// a solver must not outlive this process (a killed check would otherwise leave dozens of them running)
	cmd.SysProcAttr = &syscall.SysProcAttr{Pdeathsig: syscall.SIGKILL}
	var buf bytes.Buffer
	cmd.Stdout = &buf
	cmd.Stderr = &buf
	t0 := time.Now()
	cmd.Run()
	secs := time.Since(t0).Seconds()
	out := buf.String()
	first := ""
	for _, ln := range strings.Split(out, "\n") {
		ln = strings.TrimSpace(ln)
		if ln == "" || strings.HasPrefix(ln, "WARNING") || strings.Contains(ln, "warning:") {
			continue
		}
		first = ln
		break
	}
	res := "error"
	switch {
	case first == "unsat":
		res = "unsat"
	case first == "sat":
		res = "sat"
	case first == "unknown":
		res = "unknown"
	case parent.Err() != nil:
		res = "cancelled"
	case first == "timeout" || strings.Contains(first, "timeout") || ctx.Err() != nil:
		res = "timeout"
	case strings.Contains(out, "interrupted by timeout"):
		res = "timeout"
	}
	return solveOut{res, out, secs, sp.name}
}

// race runs the given solvers concurrently on one query and returns as soon as one of them is decisive (the others
// are killed); with all set it waits for every answer and reports a disagreement between decisive answers.
func race(file string, which []int, timeoutSec int, all bool) (solveOut, []solveOut) {
	ctx, cancel := context.WithCancel(context.Background())
	defer cancel()
	ch := make(chan solveOut, len(which))
	for _, i := range which {
		go func(sp solverSpec) { ch <- runSolverCtx(ctx, sp, file, timeoutSec) }(solvers[i])
	}
	var tried []solveOut
	best := solveOut{result: "unknown"}
	for range which {
		r := <-ch
		if r.result == "cancelled" {
			continue
		}
		tried = append(tried, r)
		decisive := r.result == "unsat" || r.result == "sat"
		switch {
		case decisive && best.result != "unsat" && best.result != "sat":
			best = r
		case decisive && best.result != r.result:
			best = solveOut{"disagree", best.out + "\n---\n" + r.out, best.secs, best.solver + "/" + r.solver}
		case !decisive && best.result == "unknown" && best.solver == "":
			best = r
		}
		if decisive && !all {
			cancel()
			return best, tried
		}
	}
	return best, tried
}

// discharge runs the portfolio on one query file: first the two z3 generations side by side (each is markedly faster
// than the other on some queries), then, if neither decides, the remaining configurations with the long timeout.
func discharge(file string, quickSec, fullSec int, all bool) (solveOut, []solveOut) {
	if all {
		// thorough: both z3 generations run to completion and must not contradict each other; only if neither decides are
		// the remaining configurations (other seeds, cvc5) raced
		best, tried := race(file, []int{0, 1}, fullSec, true)
		if best.result == "unsat" || best.result == "sat" || best.result == "disagree" {
			return best, tried
		}
		var rest []int
		for i := range solvers {
			if i >= 2 {
				rest = append(rest, i)
			}
		}
		b2, t2 := race(file, rest, fullSec, false)
		return b2, append(tried, t2...)
	}
	best, tried := race(file, []int{0, 1}, quickSec, false)
	if best.result == "unsat" || best.result == "sat" {
		return best, tried
	}
	var rest []int
	for i := range solvers {
		if i >= 2 || quickSec < fullSec {
			rest = append(rest, i)
		}
	}
	b2, t2 := race(file, rest, fullSec, false)
	tried = append(tried, t2...)
	if b2.result == "unsat" || b2.result == "sat" || best.solver == "" {
		best = b2
	}
	return best, tried
}

// solveAll discharges all obligations of the given function results in parallel.
func solveAll(results []*FuncResult, workDir string, quickSec, fullSec int, all bool, workers int, filter func(*Obl) bool) {
	os.MkdirAll(workDir, 0o755)
	type job struct {
		r *FuncResult
		o *Obl
	}
	var jobs []job
	for _, r := range results {
		for _, o := range r.Obls {
			if filter != nil && !filter(o) {
				o.Result = "skipped"
				continue
			}
			if o.Result == "not-attempted" {
				continue
			}
			jobs = append(jobs, job{r, o})
		}
	}
	var wg sync.WaitGroup
	ch := make(chan job)
	for w := 0; w < workers; w++ {
		wg.Add(1)
		go func() {
			defer wg.Done()
			for j := range ch {
				h := sha256.Sum256([]byte(j.o.Name))
				file := filepath.Join(workDir, fmt.Sprintf("%x.smt2", h[:8]))
				j.o.File = file
				if false && !all && byteFree(j.o) {
					// stage 1 for goals that do not mention byte contents: leave out the quantified byte-level facts and axioms
					// (sound: fewer assumptions); a complete attempt follows when this one is not decisive
					lq := j.r.queryMode(j.o, false, true)
					lfile := filepath.Join(workDir, fmt.Sprintf("%x.nobytes.smt2", h[:8]))
					os.WriteFile(lfile, []byte(lq), 0o644)
					lr := runSolver(solvers[0], lfile, 5)
					os.Remove(lfile)
					if lr.result == "unsat" {
						j.o.Result, j.o.Backend, j.o.Secs = "unsat", lr.solver+"(no-bytes)", lr.secs
						continue
					}
				}
				j.r.mu.Lock()
				q := j.r.query(j.o, true)
				j.r.mu.Unlock()
				os.WriteFile(file, []byte(q), 0o644)
				qs, fs := quickSec, fullSec
				if j.o.Support && !all {
					// supporting obligations get one short attempt; an undecided one only means that the selected
					// obligations after it are re-solved without its fact
					qs, fs = 6, 6
				}
				if isKnownFailing(j.o.Name) && !all {
					// listed as a known finding: one short attempt shows whether it still fails (it is never assumed)
					qs, fs = 6, 6
				}
				best, _ := discharge(file, qs, fs, all)
				j.o.Result = best.result
				j.o.Backend = best.solver
				j.o.Secs = best.secs
				if best.result != "unsat" {
					j.o.Model = best.out
				}
			}
		}()
	}
	for _, j := range jobs {
		ch <- j
	}
	close(ch)
	wg.Wait()
}
